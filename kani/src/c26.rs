//! C26 - assembler and linker error spans are well-formed.
//! Span-list level: every way the assembler and the linker build the span list of an `AsmErr`
//! (`AsmErr::new` with `[]`, a single span, 2- and 3-element arrays, `Vec`s of 0..=3 spans, `Extend`)
//! yields a list whose `first()` and `iter()` can be queried, with `first()` the first span.
//! Running `ObjectFile::link` / `assemble` themselves to the error is out of reach (BTreeMap /
//! HashMap<String,_> code does not finish symbolic execution, DESIGN.md section 9); the harness
//! builds the errors exactly as those call sites do.
use crate::asmh::*;
use crate::nd;
use lc3_ensemble::asm::{AsmErrKind, ObjectFile, SymbolTable};

fn query_spans(e: &lc3_ensemble::asm::AsmErr) -> usize {
    let f = e.span.first();
    let n = e.span.iter().count();
    assert!(f.start <= f.end, "first span is a well-formed range");
    n
}

use lc3_ensemble::asm::AsmErr;
use lc3_ensemble::err::ErrSpan;

fn sp(j: usize) -> std::ops::Range<usize> {
    let s: usize = nd::any();
    let l: usize = nd::any();
    nd::assume(s < 1000 && l < 100);
    (s + j)..(s + j + l)
}
fn check_list(es: &ErrSpan, want: &[&std::ops::Range<usize>]) {
    // both queries must be answerable for every list an assembler/linker error can carry
    let n = want.len();
    let f = es.first();
    let mut cnt = 0;
    for s in es.iter() {
        if cnt < n {
            assert!(*s == *want[cnt], "span list does not hold exactly the spans it was built from, in order");
        }
        cnt += 1;
    }
    assert!(cnt == n, "span list lost or invented spans");
    if n > 0 {
        assert!(f == *want[0], "first() is not the first span");
    }
}

crate::asm_harnesses! {
    // every way the assembler and linker build the span list of an error
    #[unwind(6)]
    fn c26_span_list_constructors() {
        let (s0, s1, s2) = (sp(0), sp(1), sp(2));
        // the linker reports block overlaps as `AsmErr::new(kind, [])`
        let e0 = AsmErr::new(AsmErrKind::OverlappingBlocks, []);
        check_list(&e0.span, &[]);
        let e1 = AsmErr::new(AsmErrKind::UnclosedOrig, s0.clone());
        check_list(&e1.span, &[&s0]);
        let e2 = AsmErr::new(AsmErrKind::OverlappingLabels, [s0.clone(), s1.clone()]);
        check_list(&e2.span, &[&s0, &s1]);
        let e3 = AsmErr::new(AsmErrKind::OverlappingBlocks, [s0.clone(), s1.clone(), s2.clone()]);
        check_list(&e3.span, &[&s0, &s1, &s2]);
        // pass 1 reports labels outside a block through a Vec of spans (any number of labels >= 1)
        let v1 = AsmErr::new(AsmErrKind::UndetAddrLabel, vec![s0.clone()]);
        check_list(&v1.span, &[&s0]);
        let v2 = AsmErr::new(AsmErrKind::UndetAddrLabel, vec![s0.clone(), s1.clone()]);
        check_list(&v2.span, &[&s0, &s1]);
        let v3 = AsmErr::new(AsmErrKind::UndetAddrLabel, vec![s0.clone(), s1.clone(), s2.clone()]);
        check_list(&v3.span, &[&s0, &s1, &s2]);
        let v0 = AsmErr::new(AsmErrKind::UndetAddrLabel, Vec::<std::ops::Range<usize>>::new());
        check_list(&v0.span, &[]);
        // Extend
        let mut x = ErrSpan::from(s0.clone());
        x.extend([s1.clone(), s2.clone()]);
        check_list(&x, &[&s0, &s1, &s2]);
        std::mem::forget((e0, e1, e2, e3, v0, v1, v2, v3, x));
    }
}
