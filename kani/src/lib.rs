//! Harness crate for solver-based checking of lc3-ensemble (see /verif/DESIGN.md).
//!
//! Every harness is an ordinary function. Under `cargo kani` it is a `#[kani::proof]`; in a native
//! build it is reachable through `replay::lookup(name)` and runs on recorded concrete values.
#![allow(clippy::all)]
#![allow(dead_code, unused_imports, unused_macros, unused_variables)]

pub mod nd;
pub mod spec;

/// Declares harnesses and the module's name -> fn table used by the native replayer.
#[macro_export]
macro_rules! harnesses {
    ($( $(#[$attr:meta])* fn $name:ident() $body:block )*) => {
        $(
            #[cfg_attr(kani, kani::proof)]
            $(#[cfg_attr(kani, $attr)])*
            pub fn $name() $body
        )*
        pub const TABLE: &[(&str, fn())] = &[ $( (stringify!($name), $name as fn()) ),* ];
    };
}

pub mod c35;
pub mod c01;
pub mod c05;
pub mod c06;
pub mod c07;
pub mod c10;
pub mod asmh;
pub mod c25;
pub mod c26;
pub mod c15;
pub mod kstep;
pub mod c08;
pub mod kfam;
pub mod c09;
pub mod c13;
pub mod c14;
pub mod c16;
pub mod c27;
pub mod c28;
pub mod c32;
pub mod c33;
pub mod c34;
pub mod probe;

pub fn tables() -> Vec<&'static [(&'static str, fn())]> {
    vec![c01::TABLE, c05::TABLE, c07::TABLE, c10::TABLE, c10::k::TABLE, c25::TABLE, c26::TABLE, c35::TABLE, c06::TABLE, c15::TABLE, c08::TABLE, c08::ir::TABLE, c09::TABLE, c13::TABLE, c14::TABLE, c16::TABLE, c27::TABLE, c28::TABLE, c32::TABLE, c32::mm::TABLE, c33::TABLE, c34::TABLE, probe::TABLE]
}

pub fn lookup(name: &str) -> Option<fn()> {
    for t in tables() {
        for (n, f) in t.iter() {
            if *n == name {
                return Some(*f);
            }
        }
    }
    None
}
