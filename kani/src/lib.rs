//! Harness crate for solver-based checking of lc3-ensemble (see /verif/DESIGN.md).
//!
//! Every harness is an ordinary function. Under `cargo kani` it is a `#[kani::proof]`; in a native
//! build it is reachable through `replay::lookup(name)` and runs on recorded concrete values.
#![allow(clippy::all)]
#![allow(dead_code, unused_imports, unused_macros, unused_variables)]

pub mod nd;
pub mod spec;

/// Declares harnesses and the module's name -> fn table used by the native replayer.
#[macro_export]
macro_rules! harnesses {
    ($( $(#[$attr:meta])* fn $name:ident() $body:block )*) => {
        $(
            #[cfg_attr(kani, kani::proof)]
            $(#[cfg_attr(kani, $attr)])*
            pub fn $name() $body
        )*
        pub const TABLE: &[(&str, fn())] = &[ $( (stringify!($name), $name as fn()) ),* ];
    };
}

/// Straight-line repetition instead of a loop with a constant trip count. Kani has ONE unwinding
/// bound per harness; every level of it is paid for by all loops and recursions of the real code
/// (notably the mutually recursive drop glue behind `Box<dyn Error>`), so the harness's own
/// bookkeeping must not force a large bound.
#[macro_export]
macro_rules! unroll {
    ($j:ident in 0..2 => $b:block) => { $crate::unroll!(@ $j $b 0 1) };
    ($j:ident in 0..3 => $b:block) => { $crate::unroll!(@ $j $b 0 1 2) };
    ($j:ident in 0..4 => $b:block) => { $crate::unroll!(@ $j $b 0 1 2 3) };
    ($j:ident in 0..6 => $b:block) => { $crate::unroll!(@ $j $b 0 1 2 3 4 5) };
    ($j:ident in 0..7 => $b:block) => { $crate::unroll!(@ $j $b 0 1 2 3 4 5 6) };
    ($j:ident in 0..8 => $b:block) => { $crate::unroll!(@ $j $b 0 1 2 3 4 5 6 7) };
    ($j:ident in 0..10 => $b:block) => { $crate::unroll!(@ $j $b 0 1 2 3 4 5 6 7 8 9) };
    (@ $j:ident $b:block $($i:literal)*) => { $( { let $j: usize = $i; $b } )* };
}

pub mod c35;
pub mod c01;
pub mod c05;
pub mod c06;
pub mod c07;
pub mod c10;
pub mod asmh;
pub mod c25;
pub mod c26;
pub mod c15;
pub mod kstep;
pub mod c08;
pub mod kfam;
pub mod c09;
pub mod c12;
pub mod c13;
pub mod c14;
pub mod c16;
pub mod c27;
pub mod c28;
pub mod c32;
pub mod c33;
pub mod c34;
pub mod probe;
/// words of the built-in OS, regenerated from /repo/src/os.asm by `replay --gen-os` on every run
pub mod gen_os { include!("gen/os_image.rs"); }
pub mod pstep;

pub fn tables() -> Vec<&'static [(&'static str, fn())]> {
    vec![c01::TABLE, c05::TABLE, c07::TABLE, c10::TABLE, c10::k::TABLE, c10::bracket::TABLE, c25::TABLE, c26::TABLE, c35::TABLE, c06::TABLE, c15::TABLE, c08::TABLE, c08::ir::TABLE, c09::TABLE, c12::TABLE, c13::TABLE, c14::TABLE, c16::TABLE, c27::TABLE, c28::TABLE, c32::TABLE, c32::mm::TABLE, c33::TABLE, c34::TABLE, probe::TABLE, pstep::TABLE]
}

pub fn lookup(name: &str) -> Option<fn()> {
    for t in tables() {
        for (n, f) in t.iter() {
            if *n == name {
                return Some(*f);
            }
        }
    }
    None
}
