//! Independent reference models, written from the LC-3 ISA (Patt & Patel, app. A) and from the
//! crate's documentation – not from its code.

pub mod instr;
pub mod isa;
