//! Reference model of one simulator step, written from the LC-3 ISA (Patt & Patel, app. A and C)
//! and the documentation of `lc3_ensemble::sim` (flags, virtual vs. real traps, MMIO mirroring,
//! access observer, frame counter).
//!
//! The model runs *before* the real step on the same pre-state. It reads the simulator's memory
//! through the raw, side-effect free index `sim.mem[a]`, keeps its own list of memory effects,
//! consumes the same scripted device answers the real step will get, and predicts: result kind,
//! registers, PC, PSR, saved SP, frame depth, instruction counter, prefetch flag, the ordered list
//! of device calls, the observer entries and every memory cell.

use crate::nd;
use crate::spec::instr::{self, DecErr, Opnd, SI};
use lc3_ensemble::sim::mem::Word;
use lc3_ensemble::sim::Simulator;

pub const R_OK: u8 = 0;
pub const E_ILLEGAL: u8 = 1;
pub const E_INVALID: u8 = 2;
pub const E_PRIV: u8 = 3;
pub const E_ACV: u8 = 4;
pub const E_INT: u8 = 5;
pub const E_HALT: u8 = 7; // internal: virtual HALT (step_in reports Ok)
pub const E_STRICT: u8 = 8; // any Strict* error
pub const E_OTHER: u8 = 9;

pub const USER_START: u16 = 0x3000;
pub const IO_START: u16 = 0xFE00;

pub const OBS_READ: u8 = 1;
pub const OBS_WRITTEN: u8 = 2;
pub const OBS_MODIFIED: u8 = 4;

pub const CALL_POLL: u8 = 0;
pub const CALL_READ: u8 = 1;
pub const CALL_WRITE: u8 = 2;

pub const FT_SUB: u8 = 0;
pub const FT_TRAP: u8 = 1;
pub const FT_INT: u8 = 2;

#[derive(Clone, Copy, PartialEq, Eq, Debug)]
pub enum PollAns {
    None,
    Vect { vect: u8, prio: u8 },
    External,
}

pub const MAX_READS: usize = 4;
pub const MAX_WRITES: usize = 3;
pub const MAX_CALLS: usize = 8;
pub const MAX_EFF: usize = 7;
pub const MAX_OBS: usize = 10;

/// Answers the device hub will give during one step (any device population).
#[derive(Clone, Copy)]
pub struct DevScript {
    pub poll: PollAns,
    pub read_ans: [Option<u16>; MAX_READS],
    pub write_ans: [bool; MAX_WRITES],
}

#[derive(Clone, Copy, PartialEq, Eq, Debug)]
pub struct Call {
    pub kind: u8,
    pub addr: u16,
    /// effectful flag (reads) or data (writes)
    pub arg: u16,
}

#[derive(Clone, Copy)]
pub struct ModelFlags {
    pub strict: bool,
    pub real_traps: bool,
    pub ignore_priv: bool,
}

pub struct Model<'a> {
    pub sim: &'a mut Simulator,
    pub flags: ModelFlags,
    pub script: DevScript,
    pub regs: [Word; 8],
    pub pc: u16,
    pub psr: u16,
    pub ssp: Word,
    pub depth: u64,
    pub irun: u64,
    pub prefetch: bool,
    pub eff: [(u16, Word); MAX_EFF],
    pub neff: usize,
    pub calls: [Call; MAX_CALLS],
    pub ncalls: usize,
    pub obs: [(u16, u8); MAX_OBS],
    pub nobs: usize,
    pub nread: usize,
    pub nwrite: usize,
    pub frame_push: Option<(u16, u16, u8)>,
    pub frame_pop: bool,
    /// every address the step tried to access with the program's privilege (for C09)
    pub touched: [u16; 6],
    pub ntouched: usize,
    /// the instruction that was decoded (None: interrupt taken / fetch failed)
    pub decoded: Option<SI>,
    /// the word that was fetched (None: interrupt taken / fetch failed)
    pub fetched: Option<u16>,
    /// assume every pre-state cell read by the model is fully initialised
    pub all_init: bool,
    /// the step executed a virtual HALT
    pub halted: bool,
    /// the default internal-register mappings are present: PSR at xFFFC, MCR at xFFFE
    pub iregs: bool,
    /// machine control register (only meaningful with `iregs`)
    pub mcr: bool,
}

pub const PSR_ADDR: u16 = 0xFFFC;
pub const MCR_ADDR: u16 = 0xFFFE;

#[inline(always)]
pub fn in_user_space(a: u16) -> bool {
    USER_START <= a && a < IO_START
}

impl<'a> Model<'a> {
    /// Reads a cell of the *pre-state* memory. The value is pinned to fresh `any()` values so that
    /// a counterexample's memory contents appear in the recorded value stream (see nd.rs).
    pub fn base(&mut self, a: u16) -> Word {
        let d: u16 = nd::any();
        let i: u16 = nd::any();
        if self.all_init {
            nd::assume(i == 0xFFFF);
        }
        let w = Word::verif_from_parts(d, i);
        crate::kstep::bind_mem(self.sim, a, w);
        w
    }

    /// Current model value of a memory cell: latest effect, else the pre-state cell.
    pub fn mem(&mut self, a: u16) -> Word {
        // concrete loop counter (cheap for the solver); the latest matching effect wins
        let mut hit = false;
        let mut v = Word::new_init(0);
        let mut j = 0;
        while j < MAX_EFF {
            if j < self.neff && self.eff[j].0 == a {
                hit = true;
                v = self.eff[j].1;
            }
            j += 1;
        }
        if hit {
            v
        } else {
            self.base(a)
        }
    }
    /// Same, but without pinning (used only for the final frame comparison where the pre-state
    /// value of the witness cell was read explicitly beforehand).

    fn push_eff(&mut self, a: u16, w: Word) {
        assert!(self.neff < MAX_EFF, "model: too many memory effects");
        self.eff[self.neff] = (a, w);
        self.neff += 1;
    }
    fn push_call(&mut self, kind: u8, addr: u16, arg: u16) {
        assert!(self.ncalls < MAX_CALLS, "model: too many device calls");
        self.calls[self.ncalls] = Call { kind, addr, arg };
        self.ncalls += 1;
    }
    fn push_obs(&mut self, a: u16, f: u8) {
        assert!(self.nobs < MAX_OBS, "model: too many observer entries");
        self.obs[self.nobs] = (a, f);
        self.nobs += 1;
    }
    fn touch(&mut self, a: u16) {
        if self.ntouched < 6 {
            self.touched[self.ntouched] = a;
            self.ntouched += 1;
        }
    }

    pub fn supervisor(&self) -> bool {
        (self.psr >> 15) == 0
    }
    pub fn priority(&self) -> u8 {
        ((self.psr >> 8) & 7) as u8
    }
    fn privileged_access(&self) -> bool {
        self.supervisor() || self.flags.ignore_priv
    }

    /// A memory read with the current privilege, MMIO and observer semantics.
    pub fn read(&mut self, a: u16) -> Result<Word, u8> {
        self.touch(a);
        if !self.privileged_access() && !in_user_space(a) {
            return Err(E_ACV);
        }
        if a >= IO_START {
            if self.iregs && a == PSR_ADDR {
                // a mapped internal register takes precedence over any device on the port
                let v = self.psr;
                self.push_eff(a, Word::new_init(v));
            } else if self.iregs && a == MCR_ADDR {
                let v = (self.mcr as u16) << 15;
                self.push_eff(a, Word::new_init(v));
            } else {
                assert!(self.nread < MAX_READS, "model: too many device reads");
                let ans = self.script.read_ans[self.nread];
                self.nread += 1;
                self.push_call(CALL_READ, a, 1);
                if let Some(d) = ans {
                    self.push_eff(a, Word::new_init(d));
                }
            }
        }
        self.push_obs(a, OBS_READ);
        Ok(self.mem(a))
    }

    /// A memory write with the current privilege, MMIO and observer semantics.
    /// `strict_val`: the strictness applying to the stored value.
    pub fn write(&mut self, a: u16, w: Word, strict_val: bool) -> Result<(), u8> {
        self.touch(a);
        if !self.privileged_access() && !in_user_space(a) {
            return Err(E_ACV);
        }
        let success = if a >= IO_START {
            if strict_val && !w.is_init() {
                return Err(E_STRICT);
            }
            if self.iregs && a == PSR_ADDR {
                // PSR write: only privilege, priority and condition-code bits; CC kept one-hot
                let d = w.get();
                let cc = d & 7;
                let cc = if cc == 1 || cc == 2 || cc == 4 { cc } else { 2 };
                self.psr = (d & 0x8700) | cc;
                true
            } else if self.iregs && a == MCR_ADDR {
                self.mcr = (w.get() as i16) < 0;
                true
            } else {
                assert!(self.nwrite < MAX_WRITES, "model: too many device writes");
                let ans = self.script.write_ans[self.nwrite];
                self.nwrite += 1;
                self.push_call(CALL_WRITE, a, w.get());
                ans
            }
        } else {
            true
        };
        if success {
            let old = self.mem(a);
            let f = if old != w { OBS_WRITTEN | OBS_MODIFIED } else { OBS_WRITTEN };
            self.push_obs(a, f);
            if strict_val && !w.is_init() {
                return Err(E_STRICT);
            }
            self.push_eff(a, w);
        }
        Ok(())
    }

    /// Strict mode: the word at a jump target must be initialised. This is a look at memory, not an
    /// access of the program: no privilege check, no device call, no observer entry.
    fn strict_target_check(&mut self, a: u16) -> Result<(), u8> {
        if self.flags.strict {
            let w = self.mem(a);
            if !w.is_init() {
                return Err(E_STRICT);
            }
        }
        Ok(())
    }

    fn set_cc(&mut self, v: u16) {
        let cc = if (v as i16) < 0 {
            0b100
        } else if v == 0 {
            0b010
        } else {
            0b001
        };
        self.psr = (self.psr & 0xFFF8) | cc;
    }

    fn set_reg_strict(&mut self, r: u8, w: Word, strict: bool) -> Result<(), u8> {
        if strict && !w.is_init() {
            return Err(E_STRICT);
        }
        self.regs[r as usize] = w;
        Ok(())
    }

    fn reg_addr(&self, r: u8) -> Result<u16, u8> {
        let w = self.regs[r as usize];
        if self.flags.strict && !w.is_init() {
            return Err(E_STRICT);
        }
        Ok(w.get())
    }

    fn in_alloca(&self, a: u16) -> bool {
        // documented: addresses inside a block of the loaded object file are exempt from the
        // uninitialised-load/store checks
        let al = self.sim.verif_alloca();
        let mut hit = false;
        let mut j = 0;
        while j < 2 {
            if j < al.len() {
                let (s, l) = al[j];
                let end = s as u32 + l as u32;
                if (a as u32) >= (s as u32) && (a as u32) < end {
                    hit = true;
                }
            }
            j += 1;
        }
        hit
    }

    /// Trap / interrupt / exception entry through vector table entry `vect`.
    pub fn enter(&mut self, vect: u16, prio: Option<u8>) -> Result<(), u8> {
        if !self.flags.real_traps {
            let code = match vect {
                0x25 => Some(E_HALT),
                0x100 => Some(E_PRIV),
                0x101 => Some(E_ILLEGAL),
                0x102 => Some(E_ACV),
                _ => None,
            };
            if let Some(c) = code {
                if !self.prefetch {
                    self.pc = self.pc.wrapping_sub(1);
                    self.prefetch = true;
                }
                return Err(c);
            }
        }
        if !self.supervisor() {
            let t = self.ssp;
            self.ssp = self.regs[6];
            self.regs[6] = t;
        }
        let old_psr = self.psr;
        let old_pc = self.pc;
        self.psr &= 0x7FFF;
        let sp = self.reg_addr(6)?;
        self.regs[6] = self.regs[6] - Word::new_init(2);
        assert!(self.regs[6].get() == sp.wrapping_sub(2), "model: R6 - 2");
        self.write(sp.wrapping_sub(1), Word::new_init(old_psr), self.flags.strict)?;
        self.write(sp.wrapping_sub(2), Word::new_init(old_pc), self.flags.strict)?;
        self.psr = (self.psr & 0xFFF8) | 0b010;
        if let Some(p) = prio {
            self.psr = (self.psr & 0xF8FF) | (((p & 7) as u16) << 8);
        }
        let tgt = self.read(vect)?;
        if self.flags.strict && !tgt.is_init() {
            return Err(E_STRICT);
        }
        self.depth += 1;
        let caller = self.pc.wrapping_sub(if self.prefetch { 0 } else { 1 });
        self.frame_push = Some((caller, vect, if prio.is_some() { FT_INT } else { FT_TRAP }));
        self.strict_target_check(tgt.get())?;
        self.pc = tgt.get();
        Ok(())
    }

    fn inner(&mut self) -> Result<(), u8> {
        self.prefetch = true;
        self.push_call(CALL_POLL, 0, 0);
        match self.script.poll {
            PollAns::Vect { vect, prio } => {
                let p = if prio > 7 { 7 } else { prio };
                if p > self.priority() {
                    return self.enter(0x100 + vect as u16, Some(p));
                }
            }
            PollAns::External => return Err(E_INT),
            PollAns::None => {}
        }
        let w = self.read(self.pc)?;
        if self.flags.strict && !w.is_init() {
            return Err(E_STRICT);
        }
        self.fetched = Some(w.get());
        let i = match instr::decode(w.get()) {
            Ok(i) => i,
            Err(DecErr::Illegal) => return Err(E_ILLEGAL),
            Err(DecErr::Invalid) => return Err(E_INVALID),
        };
        self.decoded = Some(i);
        self.pc = self.pc.wrapping_add(1);
        self.prefetch = false;
        let strict = self.flags.strict;
        match i {
            SI::Br { cc, off } => {
                if cc & (self.psr & 7) as u8 != 0 {
                    let t = self.pc.wrapping_add(off as u16);
                    self.strict_target_check(t)?;
                    self.pc = t;
                }
            }
            SI::Add { dr, sr1, op2 } | SI::And { dr, sr1, op2 } => {
                let a = self.regs[sr1 as usize];
                let b = match op2 {
                    Opnd::Imm(v) => Word::new_init(v as u16),
                    Opnd::Reg(r) => self.regs[r as usize],
                };
                let is_add = matches!(i, SI::Add { .. });
                // initialisation of the result: the crate's Word arithmetic (its contract is C15);
                // the data value is checked against plain wrapping arithmetic here.
                let r = if is_add { a + b } else { a & b };
                let want = if is_add { a.get().wrapping_add(b.get()) } else { a.get() & b.get() };
                assert!(r.get() == want, "model: ALU data value");
                self.set_reg_strict(dr, r, strict)?;
                self.set_cc(r.get());
            }
            SI::Not { dr, sr } => {
                let a = self.regs[sr as usize];
                let r = !a;
                assert!(r.get() == !a.get(), "model: NOT data value");
                self.set_reg_strict(dr, r, strict)?;
                self.set_cc(r.get());
            }
            SI::Ld { dr, off } => {
                let ea = self.pc.wrapping_add(off as u16);
                let ws = strict && !self.in_alloca(ea);
                let v = self.read(ea)?;
                self.set_reg_strict(dr, v, ws)?;
                self.set_cc(v.get());
            }
            SI::Ldr { dr, br, off } => {
                let ea = self.reg_addr(br)?.wrapping_add(off as u16);
                let ws = strict && br != 6 && !self.in_alloca(ea);
                let v = self.read(ea)?;
                self.set_reg_strict(dr, v, ws)?;
                self.set_cc(v.get());
            }
            SI::Ldi { dr, off } => {
                let p = self.pc.wrapping_add(off as u16);
                let pw = self.read(p)?;
                if strict && !pw.is_init() {
                    return Err(E_STRICT);
                }
                let ea = pw.get();
                let ws = strict && !self.in_alloca(ea);
                let v = self.read(ea)?;
                self.set_reg_strict(dr, v, ws)?;
                self.set_cc(v.get());
            }
            SI::St { sr, off } => {
                let ea = self.pc.wrapping_add(off as u16);
                let ws = strict && !self.in_alloca(ea);
                let v = self.regs[sr as usize];
                self.write(ea, v, ws)?;
            }
            SI::Str { sr, br, off } => {
                let ea = self.reg_addr(br)?.wrapping_add(off as u16);
                let ws = strict && br != 6 && !self.in_alloca(ea);
                let v = self.regs[sr as usize];
                self.write(ea, v, ws)?;
            }
            SI::Sti { sr, off } => {
                let p = self.pc.wrapping_add(off as u16);
                let pw = self.read(p)?;
                if strict && !pw.is_init() {
                    return Err(E_STRICT);
                }
                let ea = pw.get();
                let ws = strict && !self.in_alloca(ea);
                let v = self.regs[sr as usize];
                self.write(ea, v, ws)?;
            }
            SI::Jsr { .. } | SI::Jsrr { .. } => {
                let t = match i {
                    SI::Jsr { off } => self.pc.wrapping_add(off as u16),
                    SI::Jsrr { br } => {
                        let w = self.regs[br as usize];
                        if strict && !w.is_init() {
                            return Err(E_STRICT);
                        }
                        w.get()
                    }
                    _ => unreachable!(),
                };
                self.regs[7] = Word::new_init(self.pc);
                self.depth += 1;
                self.frame_push = Some((self.pc.wrapping_sub(1), t, FT_SUB));
                self.strict_target_check(t)?;
                self.pc = t;
            }
            SI::Jmp { br } => {
                let w = self.regs[br as usize];
                if strict && !w.is_init() {
                    return Err(E_STRICT);
                }
                self.strict_target_check(w.get())?;
                self.pc = w.get();
                if br == 7 {
                    self.depth = self.depth.saturating_sub(1);
                    self.frame_pop = true;
                }
            }
            SI::Lea { dr, off } => {
                self.regs[dr as usize] = Word::new_init(self.pc.wrapping_add(off as u16));
            }
            SI::Rti => {
                if !self.privileged_access() {
                    return Err(E_PRIV);
                }
                let sp = self.reg_addr(6)?;
                let npc = self.read(sp)?;
                if strict && !npc.is_init() {
                    return Err(E_STRICT);
                }
                let npsr = self.read(sp.wrapping_add(1))?;
                if strict && !npsr.is_init() {
                    return Err(E_STRICT);
                }
                self.regs[6] = self.regs[6] + Word::new_init(2);
                assert!(self.regs[6].get() == sp.wrapping_add(2), "model: R6 + 2");
                self.strict_target_check(npc.get())?;
                self.pc = npc.get();
                self.psr = npsr.get();
                if !self.supervisor() {
                    let t = self.ssp;
                    self.ssp = self.regs[6];
                    self.regs[6] = t;
                }
                self.depth = self.depth.saturating_sub(1);
                self.frame_pop = true;
            }
            SI::Trap { vect } => {
                self.enter(vect as u16, None)?;
            }
        }
        self.irun = self.irun.wrapping_add(1);
        Ok(())
    }

    /// One `step_in`: result code as `step_in` reports it (virtual HALT is Ok).
    pub fn step(&mut self) -> u8 {
        let r = self.inner();
        let r = if self.flags.real_traps {
            match r {
                Err(E_HALT) => self.enter(0x25, None),
                Err(E_PRIV) => self.enter(0x100, None),
                Err(E_ILLEGAL) | Err(E_INVALID) => self.enter(0x101, None),
                Err(E_ACV) => self.enter(0x102, None),
                other => other,
            }
        } else {
            r
        };
        self.halted = matches!(r, Err(E_HALT));
        match r {
            Ok(()) | Err(E_HALT) => R_OK,
            Err(c) => c,
        }
    }
}
