//! Bit-field table of the LC-3 instruction set (Patt & Patel, appendix A), as an independent
//! decoder / encoder. Nothing here calls into lc3-ensemble except `matches`, which compares a
//! real `SimInstr` with the model's instruction field by field.

use lc3_ensemble::ast::sim::SimInstr;
use lc3_ensemble::ast::ImmOrReg;

#[derive(Clone, Copy, PartialEq, Eq, Debug)]
pub enum Opnd {
    Imm(i16),
    Reg(u8),
}

#[derive(Clone, Copy, PartialEq, Eq, Debug)]
pub enum SI {
    Br { cc: u8, off: i16 },
    Add { dr: u8, sr1: u8, op2: Opnd },
    Ld { dr: u8, off: i16 },
    St { sr: u8, off: i16 },
    Jsr { off: i16 },
    Jsrr { br: u8 },
    And { dr: u8, sr1: u8, op2: Opnd },
    Ldr { dr: u8, br: u8, off: i16 },
    Str { sr: u8, br: u8, off: i16 },
    Rti,
    Not { dr: u8, sr: u8 },
    Ldi { dr: u8, off: i16 },
    Sti { sr: u8, off: i16 },
    Jmp { br: u8 },
    Lea { dr: u8, off: i16 },
    Trap { vect: u8 },
}

#[derive(Clone, Copy, PartialEq, Eq, Debug)]
pub enum DecErr {
    /// reserved opcode 1101
    Illegal,
    /// must-be-zero / must-be-one bits violated
    Invalid,
}

/// bits `hi..=lo` of `w`
#[inline(always)]
pub fn bits(w: u16, hi: u32, lo: u32) -> u16 {
    let width = hi - lo + 1;
    ((w as u32 >> lo) & ((1u32 << width) - 1)) as u16
}

/// sign-extend the low `n` bits of `x` (1 <= n <= 16): xor/subtract formulation.
#[inline(always)]
pub fn sext(x: u16, n: u32) -> i16 {
    let mask: i32 = (1i32 << n) - 1;
    let m: i32 = 1i32 << (n - 1);
    let low = (x as i32) & mask;
    ((low ^ m) - m) as i16
}

pub fn decode(w: u16) -> Result<SI, DecErr> {
    let op = bits(w, 15, 12);
    let r11 = bits(w, 11, 9) as u8;
    let r8 = bits(w, 8, 6) as u8;
    let r2 = bits(w, 2, 0) as u8;
    let off9 = sext(w, 9);
    let off6 = sext(w, 6);
    let imm5 = sext(w, 5);
    match op {
        0b0000 => Ok(SI::Br { cc: r11, off: off9 }),
        0b0001 | 0b0101 => {
            let op2 = if bits(w, 5, 5) == 1 {
                Opnd::Imm(imm5)
            } else {
                if bits(w, 4, 3) != 0 {
                    return Err(DecErr::Invalid);
                }
                Opnd::Reg(r2)
            };
            if op == 0b0001 {
                Ok(SI::Add { dr: r11, sr1: r8, op2 })
            } else {
                Ok(SI::And { dr: r11, sr1: r8, op2 })
            }
        }
        0b0010 => Ok(SI::Ld { dr: r11, off: off9 }),
        0b0011 => Ok(SI::St { sr: r11, off: off9 }),
        0b0100 => {
            if bits(w, 11, 11) == 1 {
                Ok(SI::Jsr { off: sext(w, 11) })
            } else if bits(w, 10, 9) != 0 || bits(w, 5, 0) != 0 {
                Err(DecErr::Invalid)
            } else {
                Ok(SI::Jsrr { br: r8 })
            }
        }
        0b0110 => Ok(SI::Ldr { dr: r11, br: r8, off: off6 }),
        0b0111 => Ok(SI::Str { sr: r11, br: r8, off: off6 }),
        0b1000 => {
            if bits(w, 11, 0) != 0 {
                Err(DecErr::Invalid)
            } else {
                Ok(SI::Rti)
            }
        }
        0b1001 => {
            if bits(w, 5, 0) != 0b111111 {
                Err(DecErr::Invalid)
            } else {
                Ok(SI::Not { dr: r11, sr: r8 })
            }
        }
        0b1010 => Ok(SI::Ldi { dr: r11, off: off9 }),
        0b1011 => Ok(SI::Sti { sr: r11, off: off9 }),
        0b1100 => {
            if bits(w, 11, 9) != 0 || bits(w, 5, 0) != 0 {
                Err(DecErr::Invalid)
            } else {
                Ok(SI::Jmp { br: r8 })
            }
        }
        0b1101 => Err(DecErr::Illegal),
        0b1110 => Ok(SI::Lea { dr: r11, off: off9 }),
        _ => {
            if bits(w, 11, 8) != 0 {
                Err(DecErr::Invalid)
            } else {
                Ok(SI::Trap { vect: bits(w, 7, 0) as u8 })
            }
        }
    }
}

#[inline(always)]
fn fld(v: u16, width: u32, lo: u32) -> u16 {
    (v & (((1u32 << width) - 1) as u16)) << lo
}
#[inline(always)]
fn opnd_bits(op2: Opnd) -> u16 {
    match op2 {
        Opnd::Imm(i) => 0x20 | fld(i as u16, 5, 0),
        Opnd::Reg(r) => fld(r as u16, 3, 0),
    }
}

/// Encoder written as sums of shifted fields (the decoder's inverse on canonical words).
pub fn encode(i: SI) -> u16 {
    match i {
        SI::Br { cc, off } => 0x0000 | fld(cc as u16, 3, 9) | fld(off as u16, 9, 0),
        SI::Add { dr, sr1, op2 } => 0x1000 | fld(dr as u16, 3, 9) | fld(sr1 as u16, 3, 6) | opnd_bits(op2),
        SI::Ld { dr, off } => 0x2000 | fld(dr as u16, 3, 9) | fld(off as u16, 9, 0),
        SI::St { sr, off } => 0x3000 | fld(sr as u16, 3, 9) | fld(off as u16, 9, 0),
        SI::Jsr { off } => 0x4800 | fld(off as u16, 11, 0),
        SI::Jsrr { br } => 0x4000 | fld(br as u16, 3, 6),
        SI::And { dr, sr1, op2 } => 0x5000 | fld(dr as u16, 3, 9) | fld(sr1 as u16, 3, 6) | opnd_bits(op2),
        SI::Ldr { dr, br, off } => 0x6000 | fld(dr as u16, 3, 9) | fld(br as u16, 3, 6) | fld(off as u16, 6, 0),
        SI::Str { sr, br, off } => 0x7000 | fld(sr as u16, 3, 9) | fld(br as u16, 3, 6) | fld(off as u16, 6, 0),
        SI::Rti => 0x8000,
        SI::Not { dr, sr } => 0x903F | fld(dr as u16, 3, 9) | fld(sr as u16, 3, 6),
        SI::Ldi { dr, off } => 0xA000 | fld(dr as u16, 3, 9) | fld(off as u16, 9, 0),
        SI::Sti { sr, off } => 0xB000 | fld(sr as u16, 3, 9) | fld(off as u16, 9, 0),
        SI::Jmp { br } => 0xC000 | fld(br as u16, 3, 6),
        SI::Lea { dr, off } => 0xE000 | fld(dr as u16, 3, 9) | fld(off as u16, 9, 0),
        SI::Trap { vect } => 0xF000 | vect as u16,
    }
}

fn opnd_matches<const N: u32>(real: &ImmOrReg<N>, s: Opnd) -> bool {
    match (real, s) {
        (ImmOrReg::Imm(i), Opnd::Imm(j)) => i.get() == j,
        (ImmOrReg::Reg(r), Opnd::Reg(q)) => r.reg_no() == q,
        _ => false,
    }
}

/// Field-by-field comparison of the crate's instruction with the model's.
pub fn matches(real: &SimInstr, s: &SI) -> bool {
    match (*real, *s) {
        (SimInstr::BR(cc, off), SI::Br { cc: c, off: o }) => cc == c && off.get() == o,
        (SimInstr::ADD(dr, sr1, ref op2), SI::Add { dr: d, sr1: s1, op2: o }) => {
            dr.reg_no() == d && sr1.reg_no() == s1 && opnd_matches(op2, o)
        }
        (SimInstr::AND(dr, sr1, ref op2), SI::And { dr: d, sr1: s1, op2: o }) => {
            dr.reg_no() == d && sr1.reg_no() == s1 && opnd_matches(op2, o)
        }
        (SimInstr::LD(dr, off), SI::Ld { dr: d, off: o }) => dr.reg_no() == d && off.get() == o,
        (SimInstr::ST(sr, off), SI::St { sr: d, off: o }) => sr.reg_no() == d && off.get() == o,
        (SimInstr::JSR(ImmOrReg::Imm(off)), SI::Jsr { off: o }) => off.get() == o,
        (SimInstr::JSR(ImmOrReg::Reg(br)), SI::Jsrr { br: b }) => br.reg_no() == b,
        (SimInstr::LDR(dr, br, off), SI::Ldr { dr: d, br: b, off: o }) => {
            dr.reg_no() == d && br.reg_no() == b && off.get() == o
        }
        (SimInstr::STR(sr, br, off), SI::Str { sr: d, br: b, off: o }) => {
            sr.reg_no() == d && br.reg_no() == b && off.get() == o
        }
        (SimInstr::RTI, SI::Rti) => true,
        (SimInstr::NOT(dr, sr), SI::Not { dr: d, sr: s1 }) => dr.reg_no() == d && sr.reg_no() == s1,
        (SimInstr::LDI(dr, off), SI::Ldi { dr: d, off: o }) => dr.reg_no() == d && off.get() == o,
        (SimInstr::STI(sr, off), SI::Sti { sr: d, off: o }) => sr.reg_no() == d && off.get() == o,
        (SimInstr::JMP(br), SI::Jmp { br: b }) => br.reg_no() == b,
        (SimInstr::LEA(dr, off), SI::Lea { dr: d, off: o }) => dr.reg_no() == d && off.get() == o,
        (SimInstr::TRAP(v), SI::Trap { vect }) => v.get() == vect as u16,
        _ => false,
    }
}
