//! C08 – each simulator step follows the LC-3 ISA. One real `step_in` from an arbitrary machine
//! state (non-strict), compared with `spec::isa::Model` on result kind, all registers, PC, PSR,
//! saved SP, prefetch flag, instruction counter, every memory cell (frame condition through a
//! universally quantified witness address) and the ordered device calls.
//!
//! Harness classes: `op0`..`op15` – the word at PC (a non-I/O address) has that opcode, the other
//! twelve bits are symbolic, no interrupt pending; `irq` – a device raises a vectored or external
//! interrupt (any fetched word); `iofetch` – PC in the I/O page (word delivered by a device).
use crate::kstep::*;
use crate::nd;
use crate::spec::isa::*;
use lc3_ensemble::sim::mem::Word;

pub const CLASS_IRQ: u8 = 16;
pub const CLASS_IOFETCH: u8 = 17;
/// groups of opcodes (bit mask over the 16 opcodes), decided in one harness
pub const GROUP_BASE: u8 = 32;
pub const G_ALU: u8 = 32; // ADD AND NOT LEA BR JMP JSR
pub const G_MEM: u8 = 33; // LD LDR LDI ST STR STI
pub const G_SYS: u8 = 34; // TRAP RTI reserved
pub fn group_mask(g: u8) -> u16 {
    match g {
        G_ALU => (1 << 0) | (1 << 1) | (1 << 4) | (1 << 5) | (1 << 9) | (1 << 12) | (1 << 14),
        G_MEM => (1 << 2) | (1 << 3) | (1 << 6) | (1 << 7) | (1 << 10) | (1 << 11),
        _ => (1 << 8) | (1 << 13) | (1 << 15),
    }
}

/// Shapes the pre-state for a harness class. For opcode classes the instruction word is *stored*
/// at PC with a concrete opcode so that symbolic execution only explores that instruction's arm.
pub const CLASS_ANY: u8 = 255;
pub fn shape_class(sim: &mut lc3_ensemble::sim::Simulator, script: &DevScript, class: u8) {
    match class {
        CLASS_ANY => {}
        CLASS_IRQ => nd::assume(!matches!(script.poll, PollAns::None)),
        CLASS_IOFETCH => {
            nd::assume(matches!(script.poll, PollAns::None));
            nd::assume(sim.pc >= IO_START);
        }
        g if g >= GROUP_BASE => {
            nd::assume(matches!(script.poll, PollAns::None));
            nd::assume(sim.pc < IO_START);
            let word: u16 = nd::any();
            let init: u16 = nd::any();
            nd::assume((group_mask(g) >> (word >> 12)) & 1 == 1);
            let pc = sim.pc;
            store_mem(sim, pc, Word::verif_from_parts(word, init));
        }
        op => {
            nd::assume(matches!(script.poll, PollAns::None));
            nd::assume(sim.pc < IO_START);
            let low: u16 = nd::any();
            let init: u16 = nd::any();
            let w = ((op as u16) << 12) | (low & 0x0FFF);
            let pc = sim.pc;
            store_mem(sim, pc, Word::verif_from_parts(w, init));
        }
    }
}

pub fn c08_body(class: u8, real_traps: Option<bool>) {
    let cfg = Cfg { strict: Some(false), real_traps, ignore_priv: None, debug_frames: false, alloca: 0,
                    interrupts: class == CLASS_IRQ || class == CLASS_ANY };
    let (mut sim, script) = any_sim(&cfg);
    shape_class(&mut sim, &script, class);
    // witness cell for the frame condition over all 65536 words
    let k: u16 = nd::any();
    let before_k = pin_mem(&mut sim, k);
    let e = predict(&mut sim, script);
    let r = sim.step_in();
    let got = err_code(&r);
    assert_arch(&sim, &e, got);
    assert!(sim.frame_stack.len() == e.depth, "frame depth differs from the model");
    assert!(sim.mem[k] == e.final_mem(k, before_k), "memory cell differs from the ISA model (write set / frame condition)");
    assert_calls(&e);
    assert_mem_ok();
    if got != R_OK {
        // the reported faulting address: instruction being executed
        let want = e.pc.wrapping_sub(if e.prefetch { 0 } else { 1 });
        #[cfg(not(kani))]
        let _ = want;
        // prefetch_pc() itself is exercised (with its arithmetic checks) in C16
    }
    crate::nd_cover!(got == R_OK, "step succeeds");
    crate::nd_cover!(got != R_OK, "step reports an error");
    crate::nd_cover!(e.neff > 0, "memory effect predicted");
    crate::nd_cover!(e.ncalls > 1, "device I/O predicted");
    finish(sim, r);
}

macro_rules! c08_harness {
    ($($name:ident = ($class:expr, $rt:expr);)*) => {
        crate::harnesses! {
            $(
                #[kani::unwind(11)]
                #[kani::stub(<lc3_ensemble::sim::device::DeviceHandler as lc3_ensemble::sim::device::ExternalDevice>::io_read, crate::kstep::stub_io_read)]
                #[kani::stub(<lc3_ensemble::sim::device::DeviceHandler as lc3_ensemble::sim::device::ExternalDevice>::io_write, crate::kstep::stub_io_write)]
                #[kani::stub(<lc3_ensemble::sim::device::DeviceHandler as lc3_ensemble::sim::device::ExternalDevice>::poll_interrupt, crate::kstep::stub_poll)]
                #[kani::stub(lc3_ensemble::sim::observer::AccessObserver::update_mem_accesses, crate::kstep::stub_update_mem_accesses)]
                #[kani::stub(std::hash::RandomState::new, crate::kstep::stub_random_state)]
                #[kani::stub(<std::hash::DefaultHasher as std::hash::Hasher>::write, crate::kstep::stub_hasher_write)]
                #[kani::stub(<std::hash::DefaultHasher as std::hash::Hasher>::finish, crate::kstep::stub_hasher_finish)]
                #[kani::stub(std::mem::swap, crate::kstep::stub_swap)]
                #[kani::stub(<lc3_ensemble::sim::mem::MemArray as std::ops::Index<u16>>::index, crate::kstep::stub_mem_index)]
                #[kani::stub(<lc3_ensemble::sim::mem::MemArray as std::ops::IndexMut<u16>>::index_mut, crate::kstep::stub_mem_index_mut)]
                fn $name() { c08_body($class, $rt) }
            )*
        }
    };
}

c08_harness! {
    c08_op0_br = (0, None);
    c08_op1_add = (1, None);
    c08_op2_ld = (2, None);
    c08_op3_st = (3, None);
    c08_op4_jsr = (4, None);
    c08_op5_and = (5, None);
    c08_op6_ldr = (6, None);
    c08_op7_str = (7, None);
    c08_op8_rti = (8, None);
    c08_op9_not = (9, None);
    c08_op10_ldi = (10, None);
    c08_op11_sti = (11, None);
    c08_op12_jmp = (12, None);
    c08_op13_res = (13, None);
    c08_op14_lea = (14, None);
    c08_op15_trap = (15, None);
    c08_g_alu = (G_ALU, None);
    c08_g_mem = (G_MEM, None);
    c08_g_sys = (G_SYS, None);
    c08_all = (CLASS_ANY, None);
    c08_irq = (CLASS_IRQ, None);
    c08_iofetch = (CLASS_IOFETCH, None);
}

/// The default internal-register mappings installed (PSR at xFFFC, MCR at xFFFE): accesses at those
/// addresses reach the register, never a device; everything else as in `c08_all`.
pub mod ir {
    use crate::kfam::{run, Opts, BASE};
    crate::kstep_harnesses! {
        c08_iregs = run(Opts { class: super::CLASS_ANY, iregs: true, a_arch: true, a_mem: true, a_calls: true, a_depth: true, ..BASE });
    }
}
