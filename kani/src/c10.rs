//! C10 - interrupts. (b) arbitration: the real `DeviceHandler::poll_interrupt` over three custom
//! devices with symbolic pending requests returns a request of maximal priority (external
//! interrupts outrank every vectored one) and polls each device exactly once.
//! (a)/(c) gate, entry state and "one poll per step, before any memory access" are the irq class of
//! the K-step family (see c08/kfam). (d) transparency bracket: interrupt entry followed by RTI.
use crate::kstep::ExtErr;
use crate::nd;
use lc3_ensemble::sim::device::{DeviceHandler, ExternalDevice, Interrupt};

pub static mut POLLED: [u8; 3] = [0; 3];

#[derive(Clone, Copy)]
pub struct IntDev {
    pub slot: usize,
    /// 0 none, 1 vectored, 2 external
    pub kind: u8,
    pub vect: u8,
    pub prio: u8,
}
impl ExternalDevice for IntDev {
    fn io_read(&mut self, _a: u16, _e: bool) -> Option<u16> { None }
    fn io_write(&mut self, _a: u16, _d: u16) -> bool { false }
    fn io_reset(&mut self) {}
    fn poll_interrupt(&mut self) -> Option<Interrupt> {
        unsafe { POLLED[self.slot] += 1; }
        match self.kind {
            0 => None,
            1 => Some(Interrupt::vectored(self.vect, self.prio)),
            _ => Some(Interrupt::external(ExtErr)),
        }
    }
}
fn any_dev(slot: usize) -> IntDev {
    let kind: u8 = nd::any();
    nd::assume(kind < 3);
    IntDev { slot, kind, vect: nd::any(), prio: nd::any() }
}
/// rank of a request: clamped priority, 8 for external, none = -1
fn rank(d: &IntDev) -> i32 {
    match d.kind {
        0 => -1,
        1 => (if d.prio > 7 { 7 } else { d.prio }) as i32,
        _ => 8,
    }
}

crate::harnesses! {
    #[kani::unwind(8)]
    #[kani::stub(lc3_ensemble::sim::device::BufferedKeyboard::try_input, crate::c32::stub_try_input)]
    #[kani::stub(lc3_ensemble::sim::device::BufferedDisplay::try_output, crate::c32::stub_try_output)]
    fn c10_arbitration() {
        let d = [any_dev(0), any_dev(1), any_dev(2)];
        unsafe { POLLED = [0; 3]; }
        let mut dh = DeviceHandler::new();
        assert!(dh.add_device(d[0], &[]).is_ok() && dh.add_device(d[1], &[]).is_ok() && dh.add_device(d[2], &[]).is_ok(), "devices without ports are accepted");
        let r = dh.poll_interrupt();
        let best = rank(&d[0]).max(rank(&d[1])).max(rank(&d[2]));
        match &r {
            None => assert!(best == -1, "a pending interrupt request was dropped"),
            Some(i) => {
                let got = match i.priority() { Some(p) => p as i32, None => 8 };
                assert!(got == best, "the interrupt delivered is not a highest-priority pending request");
            }
        }
        unsafe { assert!(POLLED[0] == 1 && POLLED[1] == 1 && POLLED[2] == 1, "every device is polled exactly once per boundary"); }
        crate::nd_cover!(best == 8, "external wins");
        crate::nd_cover!(best >= 0 && best < 8 && rank(&d[0]) == best && rank(&d[2]) == best, "tie");
        std::mem::forget(r);
        std::mem::forget(dh);
    }
}

pub mod k {
    use crate::kfam::{run, Opts, BASE};
    crate::kstep_harnesses! {
        // (a) + (c): a device has a request pending; full architectural comparison incl. device call order
        c10_irq_entry = run(Opts { class: crate::c08::CLASS_IRQ, a_arch: true, a_mem: true, a_calls: true, a_depth: true, ..BASE });
    }
}

/// (d) transparency bracket: interrupt entry followed by a handler that consists of `RTI` brings every
/// architectural component back and touches memory only in the two supervisor stack slots. A handler
/// that preserves registers and the stack therefore composes to the identity on the interrupted
/// program, at any instruction boundary (the pre-state is arbitrary). Two real steps.
pub mod bracket {
    use crate::kstep::*;
    use crate::nd;
    use crate::spec::isa::*;

    pub fn body() {
        let cfg = Cfg { strict: Some(false), real_traps: None, ignore_priv: None, debug_frames: false, alloca: 0, interrupts: true };
        let (mut sim, script) = any_sim(&cfg);
        // a vectored interrupt is pending and passes the priority gate
        let (vect, prio) = match script.poll {
            PollAns::Vect { vect, prio } => (vect, if prio > 7 { 7 } else { prio }),
            _ => { nd::assume(false); (0, 0) }
        };
        let psr0 = sim.psr().get();
        nd::assume(prio > ((psr0 >> 8) & 7) as u8);
        let user0 = psr0 >> 15 == 1;
        let pc0 = sim.pc;
        let ssp0 = sim.verif_saved_sp();
        let depth0 = sim.frame_stack.len();
        let mut regs0 = [lc3_ensemble::sim::mem::Word::new_init(0); 8];
        let mut j = 0;
        while j < 8 {
            regs0[j] = sim.reg_file[REGS[j]];
            j += 1;
        }
        // the supervisor stack the entry will push on (OS-owned: not in the I/O page)
        let sp = if user0 { ssp0.get() } else { regs0[6].get() };
        let (s1, s2) = (sp.wrapping_sub(1), sp.wrapping_sub(2));
        nd::assume(s1 < IO_START && s2 < IO_START);
        let k: u16 = nd::any();
        let before_k = pin_mem(&mut sim, k);
        let vec_addr = 0x100 + vect as u16;
        // ... and does not overlap the interrupt vector table entry that is about to be read
        nd::assume(s1 != vec_addr && s2 != vec_addr);
        let h = pin_mem(&mut sim, vec_addr).get();
        nd::assume(h < IO_START);
        // step 1: interrupt entry
        let r1 = sim.step_in();
        assert!(r1.is_ok(), "interrupt entry failed");
        assert!(sim.pc == h && sim.psr().get() >> 15 == 0, "interrupt did not enter its handler in supervisor mode");
        // hypothesis: the handler (here: its first instruction) returns with RTI
        // (an assumption under Kani; natively the recorded word is written there so that a
        // counterexample replays)
        let hw = any_word();
        nd::assume(hw.get() == 0x8000);
        #[cfg(kani)]
        kani::assume(sim.mem[h] == hw);
        #[cfg(not(kani))]
        { sim.mem[h] = hw; }
        // step 2: RTI (the same request is still pending but no longer exceeds the priority)
        let r2 = sim.step_in();
        assert!(r2.is_ok(), "RTI from the handler failed");
        // the stack pointers go through `- 2` / `+ 2`: their VALUE is restored (their initialisation
        // mask is strict-mode bookkeeping and collapses for a partially initialised pointer)
        let mut j = 0;
        while j < 8 {
            if j == 6 {
                assert!(sim.reg_file[REGS[j]].get() == regs0[j].get(), "R6 not restored after interrupt + RTI");
            } else {
                assert!(sim.reg_file[REGS[j]] == regs0[j], "register not restored after interrupt + RTI");
            }
            j += 1;
        }
        assert!(sim.pc == pc0, "PC not restored after interrupt + RTI");
        assert!(sim.psr().get() == psr0, "PSR (condition codes, privilege, priority) not restored after interrupt + RTI");
        assert!(sim.verif_saved_sp().get() == ssp0.get(), "saved stack pointer not restored after interrupt + RTI");
        assert!(sim.frame_stack.len() == depth0, "frame depth not restored after interrupt + RTI");
        if k != s1 && k != s2 {
            assert!(sim.mem[k] == before_k, "interrupt + RTI changed memory outside the two supervisor stack slots");
        }
        crate::nd_cover!(user0, "interrupted in user mode");
        crate::nd_cover!(!user0, "nested: interrupted in supervisor mode");
        assert_mem_ok();
        std::mem::forget(r1);
        finish(sim, r2);
    }
    crate::kstep_harnesses! {
        c10_bracket = body();
    }
}
