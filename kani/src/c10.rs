//! C10 - interrupts. (b) arbitration: the real `DeviceHandler::poll_interrupt` over three custom
//! devices with symbolic pending requests returns a request of maximal priority (external
//! interrupts outrank every vectored one) and polls each device exactly once.
//! (a)/(c) gate, entry state and "one poll per step, before any memory access" are the irq class of
//! the K-step family (see c08/kfam). (d) transparency bracket: interrupt entry followed by RTI.
use crate::kstep::ExtErr;
use crate::nd;
use lc3_ensemble::sim::device::{DeviceHandler, ExternalDevice, Interrupt};

pub static mut POLLED: [u8; 3] = [0; 3];

#[derive(Clone, Copy)]
pub struct IntDev {
    pub slot: usize,
    /// 0 none, 1 vectored, 2 external
    pub kind: u8,
    pub vect: u8,
    pub prio: u8,
}
impl ExternalDevice for IntDev {
    fn io_read(&mut self, _a: u16, _e: bool) -> Option<u16> { None }
    fn io_write(&mut self, _a: u16, _d: u16) -> bool { false }
    fn io_reset(&mut self) {}
    fn poll_interrupt(&mut self) -> Option<Interrupt> {
        unsafe { POLLED[self.slot] += 1; }
        match self.kind {
            0 => None,
            1 => Some(Interrupt::vectored(self.vect, self.prio)),
            _ => Some(Interrupt::external(ExtErr)),
        }
    }
}
fn any_dev(slot: usize) -> IntDev {
    let kind: u8 = nd::any();
    nd::assume(kind < 3);
    IntDev { slot, kind, vect: nd::any(), prio: nd::any() }
}
/// rank of a request: clamped priority, 8 for external, none = -1
fn rank(d: &IntDev) -> i32 {
    match d.kind {
        0 => -1,
        1 => (if d.prio > 7 { 7 } else { d.prio }) as i32,
        _ => 8,
    }
}

crate::harnesses! {
    #[kani::unwind(8)]
    #[kani::stub(lc3_ensemble::sim::device::BufferedKeyboard::try_input, crate::c32::stub_try_input)]
    #[kani::stub(lc3_ensemble::sim::device::BufferedDisplay::try_output, crate::c32::stub_try_output)]
    fn c10_arbitration() {
        let d = [any_dev(0), any_dev(1), any_dev(2)];
        unsafe { POLLED = [0; 3]; }
        let mut dh = DeviceHandler::new();
        assert!(dh.add_device(d[0], &[]).is_ok() && dh.add_device(d[1], &[]).is_ok() && dh.add_device(d[2], &[]).is_ok(), "devices without ports are accepted");
        let r = dh.poll_interrupt();
        let best = rank(&d[0]).max(rank(&d[1])).max(rank(&d[2]));
        match &r {
            None => assert!(best == -1, "a pending interrupt request was dropped"),
            Some(i) => {
                let got = match i.priority() { Some(p) => p as i32, None => 8 };
                assert!(got == best, "the interrupt delivered is not a highest-priority pending request");
            }
        }
        unsafe { assert!(POLLED[0] == 1 && POLLED[1] == 1 && POLLED[2] == 1, "every device is polled exactly once per boundary"); }
        crate::nd_cover!(best == 8, "external wins");
        crate::nd_cover!(best >= 0 && best < 8 && rank(&d[0]) == best && rank(&d[2]) == best, "tie");
        std::mem::forget(r);
        std::mem::forget(dh);
    }
}

pub mod k {
    use crate::kfam::{run, Opts, BASE};
    crate::kstep_harnesses! {
        // (a) + (c): a device has a request pending; full architectural comparison incl. device call order
        c10_irq_entry = run(Opts { class: crate::c08::CLASS_IRQ, a_arch: true, a_mem: true, a_calls: true, a_depth: true, ..BASE });
    }
}
