//! C01 (kernel layer) - the words of each statement are the LC-3 encoding of the statement.
//! Pass 2's per-statement translation `AsmInstr::into_sim_instr(pc, &sym)` followed by
//! `SimInstr::encode()`, for every `AsmInstr` variant with symbolic registers, numeric operands at
//! full field width and a symbolic location counter, against the ISA bit-field table
//! (`spec::instr::encode`) and the alias table (RET, NOP, GETC, OUT, PUTC, PUTS, IN, PUTSP, HALT).
//! Placement of statements, label maps and the pipeline over `Vec<Stmt>` are NOT covered: pass 1/2
//! over an AST do not finish symbolic execution within the caps (DESIGN.md section 9).
use crate::c06::{arb_ioff, arb_reg};
use crate::nd;
use crate::spec::instr::{self, Opnd, SI};
use lc3_ensemble::asm::SymbolTable;
use lc3_ensemble::ast::asm::AsmInstr;
use lc3_ensemble::ast::{ImmOrReg, Offset, PCOffset};

/// an arbitrary label-free assembly instruction and the instruction the ISA says it denotes
fn arb_asm_instr() -> (AsmInstr, SI) {
    let sel: u8 = nd::any();
    nd::assume(sel < 27);
    let a = arb_reg();
    let b = arb_reg();
    let c = arb_reg();
    let (an, bn, cn) = (a.reg_no(), b.reg_no(), c.reg_no());
    let o9 = arb_ioff::<9>();
    let o6 = arb_ioff::<6>();
    let o5 = arb_ioff::<5>();
    let o11 = arb_ioff::<11>();
    match sel {
        0 => (AsmInstr::ADD(a, b, ImmOrReg::Reg(c)), SI::Add { dr: an, sr1: bn, op2: Opnd::Reg(cn) }),
        1 => (AsmInstr::ADD(a, b, ImmOrReg::Imm(o5)), SI::Add { dr: an, sr1: bn, op2: Opnd::Imm(o5.get()) }),
        2 => (AsmInstr::AND(a, b, ImmOrReg::Reg(c)), SI::And { dr: an, sr1: bn, op2: Opnd::Reg(cn) }),
        3 => (AsmInstr::AND(a, b, ImmOrReg::Imm(o5)), SI::And { dr: an, sr1: bn, op2: Opnd::Imm(o5.get()) }),
        4 => {
            let cc: u8 = nd::any();
            nd::assume(cc < 8);
            (AsmInstr::BR(cc, PCOffset::Offset(o9)), SI::Br { cc, off: o9.get() })
        }
        5 => (AsmInstr::JMP(a), SI::Jmp { br: an }),
        6 => (AsmInstr::JSR(PCOffset::Offset(o11)), SI::Jsr { off: o11.get() }),
        7 => (AsmInstr::JSRR(a), SI::Jsrr { br: an }),
        8 => (AsmInstr::LD(a, PCOffset::Offset(o9)), SI::Ld { dr: an, off: o9.get() }),
        9 => (AsmInstr::LDI(a, PCOffset::Offset(o9)), SI::Ldi { dr: an, off: o9.get() }),
        10 => (AsmInstr::LDR(a, b, o6), SI::Ldr { dr: an, br: bn, off: o6.get() }),
        11 => (AsmInstr::LEA(a, PCOffset::Offset(o9)), SI::Lea { dr: an, off: o9.get() }),
        12 => (AsmInstr::NOT(a, b), SI::Not { dr: an, sr: bn }),
        13 => (AsmInstr::RET, SI::Jmp { br: 7 }),
        14 => (AsmInstr::RTI, SI::Rti),
        15 => (AsmInstr::ST(a, PCOffset::Offset(o9)), SI::St { sr: an, off: o9.get() }),
        16 => (AsmInstr::STI(a, PCOffset::Offset(o9)), SI::Sti { sr: an, off: o9.get() }),
        17 => (AsmInstr::STR(a, b, o6), SI::Str { sr: an, br: bn, off: o6.get() }),
        18 => {
            let v: u16 = nd::any();
            let t = Offset::<u16, 8>::new(v);
            nd::assume(t.is_ok());
            (AsmInstr::TRAP(t.unwrap()), SI::Trap { vect: v as u8 })
        }
        19 => (AsmInstr::NOP(PCOffset::Offset(o9)), SI::Br { cc: 0, off: o9.get() }),
        20 => (AsmInstr::GETC, SI::Trap { vect: 0x20 }),
        21 => (AsmInstr::OUT, SI::Trap { vect: 0x21 }),
        22 => (AsmInstr::PUTC, SI::Trap { vect: 0x21 }),
        23 => (AsmInstr::PUTS, SI::Trap { vect: 0x22 }),
        24 => (AsmInstr::IN, SI::Trap { vect: 0x23 }),
        25 => (AsmInstr::PUTSP, SI::Trap { vect: 0x24 }),
        _ => (AsmInstr::HALT, SI::Trap { vect: 0x25 }),
    }
}

crate::harnesses! {
    // S-upper here is the empty-string stub of c07: label operands are absent, so the label arm of
    // replace_pc_offset (the only caller of to_uppercase) is infeasible
    #[kani::unwind(7)]
    #[kani::stub(std::hash::RandomState::new, crate::kstep::stub_random_state)]
    #[kani::stub(<std::hash::DefaultHasher as std::hash::Hasher>::write, crate::kstep::stub_hasher_write)]
    #[kani::stub(<std::hash::DefaultHasher as std::hash::Hasher>::finish, crate::kstep::stub_hasher_finish)]
    #[kani::stub(str::to_uppercase, crate::c07::stub_to_uppercase)]
    #[kani::stub(alloc::fmt::format, crate::c05::stub_format)]
    fn c01_instr_words() {
        let (ai, want) = arb_asm_instr();
        let lc: u16 = nd::any();
        let sym = SymbolTable::new(&[], None);
        let sym = match sym { Ok(s) => s, Err(e) => { std::mem::forget(e); assert!(false, "empty program rejected"); return; } };
        let r = ai.into_sim_instr(lc, &sym);
        match r {
            Ok(si) => {
                assert!(instr::matches(&si, &want), "instruction translated to a different machine instruction");
                assert!(si.encode() == instr::encode(want), "statement word differs from the LC-3 encoding");
            }
            Err(e) => { std::mem::forget(e); assert!(false, "label-free instruction failed to assemble"); }
        }
        crate::nd_cover!(matches!(want, SI::Trap { vect: 0x25 }), "HALT alias");
        crate::nd_cover!(matches!(want, SI::Br { cc: 0, .. }), "NOP alias");
        crate::nd_cover!(matches!(want, SI::Jsr { off: -1024 }), "JSR most negative offset");
        std::mem::forget(sym);
    }
}
