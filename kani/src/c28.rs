//! C28 - access observer records exactly the memory the program touched.
use crate::kfam::{run, Opts, BASE};
use crate::c08::{G_ALU, G_MEM, G_SYS, CLASS_IRQ};
const O: Opts = Opts { a_obs: true, ..BASE };
crate::kstep_harnesses! {
    c28_obs_all = run(Opts { class: crate::c08::CLASS_ANY, ..O });
    c28_obs_mem = run(Opts { class: G_MEM, ..O });
    c28_obs_sys = run(Opts { class: G_SYS, ..O });
    c28_obs_alu = run(Opts { class: G_ALU, ..O });
    c28_obs_irq = run(Opts { class: CLASS_IRQ, ..O });
}
