//! C13 (one-step core) - run_with_limit, step_over and step_out execute exactly the instruction a
//! single step would, and stop with the documented pause state. Bound: executions in which the
//! call's stop condition holds after the first executed step (see kfam.rs, `mode`).
use crate::kfam::{run, Opts, BASE};
use crate::c08::CLASS_ANY;
const O: Opts = Opts { class: CLASS_ANY, a_arch: true, a_mem: true, a_depth: true, a_calls: true, ..BASE };
const V: Opts = Opts { real_traps: Some(false), ..O };
crate::kstep_harnesses! {
    c13_run_limit1_vt = run(Opts { mode: 1, ..V });
    c13_run_breakpoint_vt = run(Opts { mode: 4, ..V });
    c13_run_limit1_iregs_vt = run(Opts { mode: 1, iregs: true, ..V });
    c13_run_limit1 = run(Opts { mode: 1, ..O });
    c13_step_over = run(Opts { mode: 2, ..O });
    c13_step_out = run(Opts { mode: 3, ..O });
    c13_run_breakpoint = run(Opts { mode: 4, ..O });
    c13_step_out_top = run(Opts { mode: 5, ..O });
}
