//! Nondeterminism layer.
//!
//! Under Kani (`cfg(kani)`) every `nd::any()` is a fresh symbolic value (`kani::any()`), `assume`
//! is `kani::assume`, and `cover!` is `kani::cover!`.
//!
//! In a native build the same harness body is *replayed*: `nd::any()` pops the byte vectors that
//! Kani's concrete playback printed for the counterexample (one vector per `any()` call, in call
//! order), `assume(false)` ends the replay as "not reproduced" (exit code 3), and a failing
//! `assert!` panics (exit code 101) – which is what the driver reports as a reproduced violation.

#[cfg(not(kani))]
use std::cell::RefCell;
#[cfg(not(kani))]
use std::collections::VecDeque;

#[cfg(not(kani))]
thread_local! {
    static VALS: RefCell<VecDeque<Vec<u8>>> = RefCell::new(VecDeque::new());
    /// model-validation mode: values are generated pseudo-randomly and recorded
    static FUZZ: RefCell<Option<u64>> = RefCell::new(None);
    static RECORD: RefCell<Vec<Vec<u8>>> = RefCell::new(Vec::new());
}
/// Marker payload: an assumption failed in fuzz mode.
#[cfg(not(kani))]
pub struct AssumeFail;

#[cfg(not(kani))]
pub fn fuzz_begin(seed: u64) {
    FUZZ.with(|f| *f.borrow_mut() = Some(seed | 1));
    RECORD.with(|r| r.borrow_mut().clear());
}
#[cfg(not(kani))]
pub fn fuzz_record() -> Vec<Vec<u8>> {
    RECORD.with(|r| r.borrow().clone())
}
#[cfg(not(kani))]
fn fuzz_bytes(n: usize) -> Option<Vec<u8>> {
    FUZZ.with(|f| {
        let mut f = f.borrow_mut();
        let st = f.as_mut()?;
        let mut next = || {
            // xorshift64*
            *st ^= *st >> 12;
            *st ^= *st << 25;
            *st ^= *st >> 27;
            st.wrapping_mul(0x2545F4914F6CDD1D)
        };
        let r = next();
        let mut v: u64 = next();
        // bias towards boundary values
        match r % 8 {
            0 => v = 0,
            1 => v = (next() % 4) as u64,
            2 => v = u64::MAX,
            3 => v = [0x3000u64, 0x2FFF, 0xFE00, 0xFDFF, 0xFFFF, 0x8000, 0x7FFF, 0x0100, 0x01FF, 0x0025][(next() % 10) as usize],
            4 => v = 0x2FF0 + next() % 0x30,
            5 => v = 0xFDF0 + next() % 0x20,
            _ => {}
        }
        let b = v.to_le_bytes()[..n].to_vec();
        RECORD.with(|r| r.borrow_mut().push(b.clone()));
        Some(b)
    })
}

/// Exit code used by the native replayer when an assumption does not hold for the recorded values.
pub const EXIT_ASSUME: i32 = 3;
/// Exit code used by the native replayer when the recorded values run out / have the wrong size.
pub const EXIT_EXHAUSTED: i32 = 4;

#[cfg(not(kani))]
pub fn load(vals: Vec<Vec<u8>>) {
    VALS.with(|v| *v.borrow_mut() = vals.into());
}
#[cfg(not(kani))]
pub fn remaining() -> usize {
    VALS.with(|v| v.borrow().len())
}

#[cfg(not(kani))]
fn pop(n: usize) -> Vec<u8> {
    if let Some(b) = fuzz_bytes(n) {
        return b;
    }
    let v = VALS.with(|v| v.borrow_mut().pop_front());
    match v {
        Some(b) if b.len() == n => b,
        Some(b) => {
            eprintln!("REPLAY: recorded value has {} bytes, harness wants {}", b.len(), n);
            std::process::exit(EXIT_EXHAUSTED)
        }
        None => {
            eprintln!("REPLAY: recorded values exhausted");
            std::process::exit(EXIT_EXHAUSTED)
        }
    }
}

pub trait Nd: Sized {
    fn nd() -> Self;
}

macro_rules! nd_int {
    ($($t:ty),*) => {$(
        impl Nd for $t {
            #[cfg(kani)]
            #[inline(always)]
            fn nd() -> Self { kani::any() }
            #[cfg(not(kani))]
            fn nd() -> Self {
                let b = pop(std::mem::size_of::<$t>());
                <$t>::from_le_bytes(b.try_into().unwrap())
            }
        }
    )*};
}
nd_int!(u8, u16, u32, u64, usize, i8, i16, i32, i64);

impl Nd for bool {
    #[cfg(kani)]
    #[inline(always)]
    fn nd() -> Self {
        kani::any()
    }
    #[cfg(not(kani))]
    fn nd() -> Self {
        pop(1)[0] != 0
    }
}

#[inline(always)]
pub fn any<T: Nd>() -> T {
    T::nd()
}

#[cfg(kani)]
#[inline(always)]
pub fn assume(c: bool) {
    kani::assume(c)
}
#[cfg(not(kani))]
pub fn assume(c: bool) {
    if !c && FUZZ.with(|f| f.borrow().is_some()) {
        std::panic::panic_any(AssumeFail);
    }
    if !c {
        eprintln!("REPLAY: assumption violated by the recorded values");
        std::process::exit(EXIT_ASSUME)
    }
}

/// `place == value` as an assumption under Kani; an assignment in a native replay.
/// Used to pin down memory cells of the nondeterministic 64K array so that the values the
/// solver chose for them appear in the recorded `any()` stream.
#[macro_export]
macro_rules! nd_bind {
    ($place:expr, $value:expr) => {{
        #[cfg(kani)]
        {
            kani::assume($place == $value);
        }
        #[cfg(not(kani))]
        {
            $place = $value;
        }
    }};
}

#[macro_export]
macro_rules! nd_cover {
    ($c:expr, $msg:literal) => {{
        #[cfg(kani)]
        {
            kani::cover!($c, $msg);
        }
        #[cfg(not(kani))]
        {
            let _ = $c;
        }
    }};
}
