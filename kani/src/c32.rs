//! C32 - memory-mapped I/O reaches exactly the mapped register or device.
//! (a) `DeviceHandler` against a port-ownership model over symbolic operation sequences.
//! Real code: `DeviceHandler::{new, add_device, remove_device, set_keyboard, set_display, get_dev_id,
//! set_port}`, `<DeviceHandler as ExternalDevice>::{io_read, io_write}`, `SimDevice` dispatch.
use crate::nd;
use lc3_ensemble::sim::device::{DeviceHandler, ExternalDevice, Interrupt};

#[derive(Clone, Copy, PartialEq, Eq, Debug)]
pub struct RecCall {
    pub tag: u8,
    pub write: bool,
    pub addr: u16,
    pub arg: u16,
}
pub static mut LAST: Option<RecCall> = None;
pub static mut NCALLS: u32 = 0;

/// A recording device: remembers the last call it received.
pub struct RecDev {
    pub tag: u8,
}
impl ExternalDevice for RecDev {
    fn io_read(&mut self, addr: u16, effectful: bool) -> Option<u16> {
        unsafe {
            LAST = Some(RecCall { tag: self.tag, write: false, addr, arg: effectful as u16 });
            NCALLS += 1;
        }
        Some(0x1100 + self.tag as u16)
    }
    fn io_write(&mut self, addr: u16, data: u16) -> bool {
        unsafe {
            LAST = Some(RecCall { tag: self.tag, write: true, addr, arg: data });
            NCALLS += 1;
        }
        true
    }
    fn io_reset(&mut self) {}
    fn poll_interrupt(&mut self) -> Option<Interrupt> {
        None
    }
}

/// Stubs for the buffered keyboard/display lock acquisition. No buffered device is ever installed in
/// these harnesses; the `SimDevice::Keyboard/Display` arms are infeasible but CBMC cannot rule them
/// out when the device vector is indexed symbolically, and the RwLock CAS loop inside them would be
/// unrolled up to the (512-entry port table) unwinding bound.
pub fn stub_try_input(_this: &lc3_ensemble::sim::device::BufferedKeyboard) -> Option<std::sync::RwLockWriteGuard<'_, std::collections::VecDeque<u8>>> {
    None
}
pub fn stub_try_output(_this: &lc3_ensemble::sim::device::BufferedDisplay) -> Option<std::sync::RwLockWriteGuard<'_, Vec<u8>>> {
    None
}
const IO: u16 = 0xFE00;
const MAXC: usize = 3;

#[derive(Clone, Copy)]
struct Custom {
    live: bool,
    exists: bool,
    tag: u8,
    p1: u16,
    p2: u16,
}
struct PortModel {
    kb: Option<u8>,
    ds: Option<u8>,
    c: [Custom; MAXC],
    nadded: usize,
}
impl PortModel {
    /// id of the device owning `a` (0 = nobody), per the documented ownership rules
    fn owner(&self, a: u16) -> u16 {
        if a < IO {
            return 0;
        }
        if a == 0xFE00 || a == 0xFE02 {
            return 1;
        }
        if a == 0xFE04 || a == 0xFE06 {
            return 2;
        }
        let mut o = 0;
        let mut j = 0;
        while j < MAXC {
            if self.c[j].live && (self.c[j].p1 == a || self.c[j].p2 == a) {
                o = 3 + j as u16;
            }
            j += 1;
        }
        o
    }
    /// tag of the live device that an access at `a` reaches
    fn reaches(&self, a: u16) -> Option<u8> {
        match self.owner(a) {
            0 => None,
            1 => self.kb,
            2 => self.ds,
            id => Some(self.c[(id - 3) as usize].tag),
        }
    }
}

/// Operation kinds (concrete per harness: they fix the shape of the history; all arguments are symbolic).
const ADD: u8 = 0;
const REMOVE: u8 = 1;
const SETKB: u8 = 2;
const SETDS: u8 = 3;
const READ: u8 = 4;
const WRITE: u8 = 5;

fn ops(kinds: &[u8]) {
    let mut dh = DeviceHandler::new();
    let mut m = PortModel {
        kb: None,
        ds: None,
        c: [Custom { live: false, exists: false, tag: 0, p1: 0, p2: 0 }; MAXC],
        nadded: 0,
    };
    unsafe {
        LAST = None;
        NCALLS = 0;
    }
    let mut step = 0;
    while step < kinds.len() {
        let op = kinds[step];
        let tag: u8 = 10 + step as u8;
        let a: u16 = nd::any();
        let b: u16 = nd::any();
        unsafe {
            LAST = None;
        }
        match op {
            ADD => {
                let want_ok = a >= IO && b >= IO && m.owner(a) == 0 && m.owner(b) == 0;
                let r = dh.add_device(RecDev { tag }, &[a, b]);
                assert!(r.is_ok() == want_ok, "add_device success differs from 'all ports are I/O addresses not owned by a device'");
                match r {
                    Ok(id) => {
                        assert!(id == 3 + m.nadded as u16, "device id reused or not increasing");
                        m.c[m.nadded] = Custom { live: true, exists: true, tag, p1: a, p2: b };
                        m.nadded += 1;
                    }
                    Err(d) => {
                        assert!(d.tag == tag, "rejected device not handed back");
                        std::mem::forget(d);
                    }
                }
            }
            REMOVE => {
                dh.remove_device(a);
                if a == 1 {
                    m.kb = None;
                } else if a == 2 {
                    m.ds = None;
                } else if a >= 3 && ((a - 3) as usize) < m.nadded {
                    m.c[(a - 3) as usize].live = false;
                }
            }
            SETKB => {
                dh.set_keyboard(RecDev { tag });
                m.kb = Some(tag);
            }
            SETDS => {
                dh.set_display(RecDev { tag });
                m.ds = Some(tag);
            }
            READ => {
                let eff: bool = nd::any();
                let want = m.reaches(a);
                let r = dh.io_read(a, eff);
                match want {
                    None => {
                        assert!(r.is_none(), "read at an unowned / non-I/O port returned data");
                        assert!(unsafe { LAST.is_none() }, "read at an unowned port reached a device");
                    }
                    Some(t) => {
                        assert!(r == Some(0x1100 + t as u16), "read did not return the owning device's answer");
                        assert!(unsafe { LAST } == Some(RecCall { tag: t, write: false, addr: a, arg: eff as u16 }), "read reached the wrong device / wrong arguments");
                    }
                }
            }
            _ => {
                let want = m.reaches(a);
                let r = dh.io_write(a, b);
                match want {
                    None => {
                        assert!(!r, "write at an unowned / non-I/O port reported success");
                        assert!(unsafe { LAST.is_none() }, "write at an unowned port reached a device");
                    }
                    Some(t) => {
                        assert!(r, "write to an owned port failed");
                        assert!(unsafe { LAST } == Some(RecCall { tag: t, write: true, addr: a, arg: b }), "write reached the wrong device / wrong arguments");
                    }
                }
            }
        }
        step += 1;
    }
    // a final probe at an arbitrary address: the whole ownership table agrees with the model
    let p: u16 = nd::any();
    unsafe {
        LAST = None;
    }
    let r = dh.io_read(p, false);
    match m.reaches(p) {
        None => assert!(r.is_none() && unsafe { LAST.is_none() }, "port table differs from the ownership model (unowned port answers)"),
        Some(t) => assert!(r == Some(0x1100 + t as u16), "port table differs from the ownership model (wrong owner)"),
    }
    crate::nd_cover!(m.reaches(p).is_some(), "probe reaches a device");
    crate::nd_cover!(m.reaches(p).is_none() && p >= IO, "probe at an unowned I/O port");
    std::mem::forget(dh);
}

crate::harnesses! {
    #[kani::unwind(514)]
    #[kani::stub(lc3_ensemble::sim::device::BufferedKeyboard::try_input, stub_try_input)]
    #[kani::stub(lc3_ensemble::sim::device::BufferedDisplay::try_output, stub_try_output)]
    fn c32_add_rw() { ops(&[ADD, WRITE]) }
    #[kani::unwind(514)]
    #[kani::stub(lc3_ensemble::sim::device::BufferedKeyboard::try_input, stub_try_input)]
    #[kani::stub(lc3_ensemble::sim::device::BufferedDisplay::try_output, stub_try_output)]
    fn c32_add_add() { ops(&[ADD, ADD]) }
    #[kani::unwind(514)]
    #[kani::stub(lc3_ensemble::sim::device::BufferedKeyboard::try_input, stub_try_input)]
    #[kani::stub(lc3_ensemble::sim::device::BufferedDisplay::try_output, stub_try_output)]
    fn c32_add_remove_add() { ops(&[ADD, REMOVE, ADD]) }
    #[kani::unwind(514)]
    #[kani::stub(lc3_ensemble::sim::device::BufferedKeyboard::try_input, stub_try_input)]
    #[kani::stub(lc3_ensemble::sim::device::BufferedDisplay::try_output, stub_try_output)]
    fn c32_kb_remove_add() { ops(&[SETKB, REMOVE, ADD]) }
    #[kani::unwind(514)]
    #[kani::stub(lc3_ensemble::sim::device::BufferedKeyboard::try_input, stub_try_input)]
    #[kani::stub(lc3_ensemble::sim::device::BufferedDisplay::try_output, stub_try_output)]
    fn c32_ds_write() { ops(&[SETDS, WRITE]) }
    #[kani::unwind(514)]
    #[kani::stub(lc3_ensemble::sim::device::BufferedKeyboard::try_input, stub_try_input)]
    #[kani::stub(lc3_ensemble::sim::device::BufferedDisplay::try_output, stub_try_output)]
    fn c32_kb_ds_read() { ops(&[SETKB, SETDS, READ]) }
    #[kani::unwind(514)]
    #[kani::stub(lc3_ensemble::sim::device::BufferedKeyboard::try_input, stub_try_input)]
    #[kani::stub(lc3_ensemble::sim::device::BufferedDisplay::try_output, stub_try_output)]
    fn c32_add_add_remove_add() { ops(&[ADD, ADD, REMOVE, ADD]) }
}
