//! C32 - memory-mapped I/O reaches exactly the mapped register or device.
//! (a) `DeviceHandler` against a port-ownership model over symbolic operation sequences.
//! Real code: `DeviceHandler::{new, add_device, remove_device, set_keyboard, set_display, get_dev_id,
//! set_port}`, `<DeviceHandler as ExternalDevice>::{io_read, io_write}`, `SimDevice` dispatch.
use crate::nd;
use lc3_ensemble::sim::device::{DeviceHandler, ExternalDevice, Interrupt};

#[derive(Clone, Copy, PartialEq, Eq, Debug)]
pub struct RecCall {
    pub tag: u8,
    pub write: bool,
    pub addr: u16,
    pub arg: u16,
}
pub static mut LAST: Option<RecCall> = None;
pub static mut NCALLS: u32 = 0;

/// A recording device: remembers the last call it received.
pub struct RecDev {
    pub tag: u8,
}
impl ExternalDevice for RecDev {
    fn io_read(&mut self, addr: u16, effectful: bool) -> Option<u16> {
        unsafe {
            LAST = Some(RecCall { tag: self.tag, write: false, addr, arg: effectful as u16 });
            NCALLS += 1;
        }
        Some(0x1100 + self.tag as u16)
    }
    fn io_write(&mut self, addr: u16, data: u16) -> bool {
        unsafe {
            LAST = Some(RecCall { tag: self.tag, write: true, addr, arg: data });
            NCALLS += 1;
        }
        true
    }
    fn io_reset(&mut self) {}
    fn poll_interrupt(&mut self) -> Option<Interrupt> {
        None
    }
}

/// Stubs for the buffered keyboard/display lock acquisition. No buffered device is ever installed in
/// these harnesses; the `SimDevice::Keyboard/Display` arms are infeasible but CBMC cannot rule them
/// out when the device vector is indexed symbolically, and the RwLock CAS loop inside them would be
/// unrolled up to the (512-entry port table) unwinding bound.
pub fn stub_try_input(_this: &lc3_ensemble::sim::device::BufferedKeyboard) -> Option<std::sync::RwLockWriteGuard<'_, std::collections::VecDeque<u8>>> {
    None
}
pub fn stub_try_output(_this: &lc3_ensemble::sim::device::BufferedDisplay) -> Option<std::sync::RwLockWriteGuard<'_, Vec<u8>>> {
    None
}
const IO: u16 = 0xFE00;
const MAXC: usize = 3;

#[derive(Clone, Copy)]
struct Custom {
    live: bool,
    exists: bool,
    tag: u8,
    p1: u16,
    p2: u16,
}
struct PortModel {
    kb: Option<u8>,
    ds: Option<u8>,
    c: [Custom; MAXC],
    nadded: usize,
}
impl PortModel {
    /// id of the device owning `a` (0 = nobody), per the documented ownership rules
    fn owner(&self, a: u16) -> u16 {
        if a < IO {
            return 0;
        }
        if a == 0xFE00 || a == 0xFE02 {
            return 1;
        }
        if a == 0xFE04 || a == 0xFE06 {
            return 2;
        }
        let mut o = 0;
        let mut j = 0;
        while j < MAXC {
            if self.c[j].live && (self.c[j].p1 == a || self.c[j].p2 == a) {
                o = 3 + j as u16;
            }
            j += 1;
        }
        o
    }
    /// tag of the live device that an access at `a` reaches
    fn reaches(&self, a: u16) -> Option<u8> {
        match self.owner(a) {
            0 => None,
            1 => self.kb,
            2 => self.ds,
            id => Some(self.c[(id - 3) as usize].tag),
        }
    }
}

/// Operation kinds (concrete per harness: they fix the shape of the history; all arguments are symbolic).
const ADD: u8 = 0;
const REMOVE: u8 = 1;
const SETKB: u8 = 2;
const SETDS: u8 = 3;
const READ: u8 = 4;
const WRITE: u8 = 5;

fn ops(kinds: &[u8]) {
    let mut dh = DeviceHandler::new();
    let mut m = PortModel {
        kb: None,
        ds: None,
        c: [Custom { live: false, exists: false, tag: 0, p1: 0, p2: 0 }; MAXC],
        nadded: 0,
    };
    unsafe {
        LAST = None;
        NCALLS = 0;
    }
    let mut step = 0;
    while step < kinds.len() {
        let op = kinds[step];
        let tag: u8 = 10 + step as u8;
        let a: u16 = nd::any();
        let b: u16 = nd::any();
        unsafe {
            LAST = None;
        }
        match op {
            ADD => {
                let want_ok = a >= IO && b >= IO && m.owner(a) == 0 && m.owner(b) == 0;
                let r = dh.add_device(RecDev { tag }, &[a, b]);
                assert!(r.is_ok() == want_ok, "add_device success differs from 'all ports are I/O addresses not owned by a device'");
                match r {
                    Ok(id) => {
                        assert!(id == 3 + m.nadded as u16, "device id reused or not increasing");
                        m.c[m.nadded] = Custom { live: true, exists: true, tag, p1: a, p2: b };
                        m.nadded += 1;
                    }
                    Err(d) => {
                        assert!(d.tag == tag, "rejected device not handed back");
                        std::mem::forget(d);
                    }
                }
            }
            REMOVE => {
                dh.remove_device(a);
                if a == 1 {
                    m.kb = None;
                } else if a == 2 {
                    m.ds = None;
                } else if a >= 3 && ((a - 3) as usize) < m.nadded {
                    m.c[(a - 3) as usize].live = false;
                }
            }
            SETKB => {
                dh.set_keyboard(RecDev { tag });
                m.kb = Some(tag);
            }
            SETDS => {
                dh.set_display(RecDev { tag });
                m.ds = Some(tag);
            }
            READ => {
                let eff: bool = nd::any();
                let want = m.reaches(a);
                let r = dh.io_read(a, eff);
                match want {
                    None => {
                        assert!(r.is_none(), "read at an unowned / non-I/O port returned data");
                        assert!(unsafe { LAST.is_none() }, "read at an unowned port reached a device");
                    }
                    Some(t) => {
                        assert!(r == Some(0x1100 + t as u16), "read did not return the owning device's answer");
                        assert!(unsafe { LAST } == Some(RecCall { tag: t, write: false, addr: a, arg: eff as u16 }), "read reached the wrong device / wrong arguments");
                    }
                }
            }
            _ => {
                let want = m.reaches(a);
                let r = dh.io_write(a, b);
                match want {
                    None => {
                        assert!(!r, "write at an unowned / non-I/O port reported success");
                        assert!(unsafe { LAST.is_none() }, "write at an unowned port reached a device");
                    }
                    Some(t) => {
                        assert!(r, "write to an owned port failed");
                        assert!(unsafe { LAST } == Some(RecCall { tag: t, write: true, addr: a, arg: b }), "write reached the wrong device / wrong arguments");
                    }
                }
            }
        }
        step += 1;
    }
    // a final probe at an arbitrary address: the whole ownership table agrees with the model
    let p: u16 = nd::any();
    unsafe {
        LAST = None;
    }
    let r = dh.io_read(p, false);
    match m.reaches(p) {
        None => assert!(r.is_none() && unsafe { LAST.is_none() }, "port table differs from the ownership model (unowned port answers)"),
        Some(t) => assert!(r == Some(0x1100 + t as u16), "port table differs from the ownership model (wrong owner)"),
    }
    crate::nd_cover!(m.reaches(p).is_some(), "probe reaches a device");
    crate::nd_cover!(m.reaches(p).is_none() && p >= IO, "probe at an unowned I/O port");
    std::mem::forget(dh);
}

crate::harnesses! {
    #[kani::unwind(514)]
    #[kani::stub(lc3_ensemble::sim::device::BufferedKeyboard::try_input, stub_try_input)]
    #[kani::stub(lc3_ensemble::sim::device::BufferedDisplay::try_output, stub_try_output)]
    fn c32_add_rw() { ops(&[ADD, WRITE]) }
    #[kani::unwind(514)]
    #[kani::stub(lc3_ensemble::sim::device::BufferedKeyboard::try_input, stub_try_input)]
    #[kani::stub(lc3_ensemble::sim::device::BufferedDisplay::try_output, stub_try_output)]
    fn c32_add_add() { ops(&[ADD, ADD]) }
    #[kani::unwind(514)]
    #[kani::stub(lc3_ensemble::sim::device::BufferedKeyboard::try_input, stub_try_input)]
    #[kani::stub(lc3_ensemble::sim::device::BufferedDisplay::try_output, stub_try_output)]
    fn c32_add_remove_add() { ops(&[ADD, REMOVE, ADD]) }
    #[kani::unwind(514)]
    #[kani::stub(lc3_ensemble::sim::device::BufferedKeyboard::try_input, stub_try_input)]
    #[kani::stub(lc3_ensemble::sim::device::BufferedDisplay::try_output, stub_try_output)]
    fn c32_kb_remove_add() { ops(&[SETKB, REMOVE, ADD]) }
    #[kani::unwind(514)]
    #[kani::stub(lc3_ensemble::sim::device::BufferedKeyboard::try_input, stub_try_input)]
    #[kani::stub(lc3_ensemble::sim::device::BufferedDisplay::try_output, stub_try_output)]
    fn c32_ds_write() { ops(&[SETDS, WRITE]) }
    #[kani::unwind(514)]
    #[kani::stub(lc3_ensemble::sim::device::BufferedKeyboard::try_input, stub_try_input)]
    #[kani::stub(lc3_ensemble::sim::device::BufferedDisplay::try_output, stub_try_output)]
    fn c32_kb_ds_read() { ops(&[SETKB, SETDS, READ]) }
    #[kani::unwind(514)]
    #[kani::stub(lc3_ensemble::sim::device::BufferedKeyboard::try_input, stub_try_input)]
    #[kani::stub(lc3_ensemble::sim::device::BufferedDisplay::try_output, stub_try_output)]
    fn c32_add_add_remove_add() { ops(&[ADD, ADD, REMOVE, ADD]) }
}

/// (b)/(c) precedence through the simulator's real `read_mem` / `write_mem` with the REAL device hub:
/// one internal register mapped at a symbolic address, one recording device on a symbolic port.
pub mod mm {
    use super::{RecCall, RecDev, LAST, NCALLS};
    use crate::kstep::*;
    use crate::nd;
    use lc3_ensemble::sim::mem::Word;
    use lc3_ensemble::sim::{InternalRegister, MemAccessCtx};

    fn body() {
        let cfg = Cfg { strict: Some(false), real_traps: None, ignore_priv: None, debug_frames: false, alloca: 0, interrupts: false };
        let (mut sim, _script) = any_sim(&cfg);
        let port: u16 = nd::any();
        let added = sim.device_handler.add_device(RecDev { tag: 9 }, &[port]).is_ok();
        assert!(added == (port >= 0xFE00 && ![0xFE00u16, 0xFE02, 0xFE04, 0xFE06].contains(&port)), "add_device acceptance");
        let ra: u16 = nd::any();
        let which: u8 = nd::any();
        nd::assume(which < 3);
        let reg = match which { 0 => InternalRegister::PC, 1 => InternalRegister::PSR, _ => InternalRegister::SavedSP };
        let m1 = sim.mmap_internal(ra, reg);
        assert!(m1.is_ok() == (ra >= 0xFE00), "mmap_internal succeeds exactly for I/O addresses");
        let mapped = m1.is_ok();
        // a second mapping at the same address is refused and changes nothing
        let m2 = sim.mmap_internal(ra, InternalRegister::MCR);
        assert!(m2.is_err(), "mmap_internal accepted an occupied / non-I/O address");
        std::mem::forget(m1);
        std::mem::forget(m2);
        let x: u16 = nd::any();
        let ctx = MemAccessCtx { privileged: true, strict: false, io_effects: nd::any(), track_access: false };
        let before_x = pin_mem(&mut sim, x);
        let (pc0, psr0, ssp0) = (sim.pc, sim.psr().get(), sim.verif_saved_sp().get());
        let do_write: bool = nd::any();
        unsafe { LAST = None; NCALLS = 0; }
        if !do_write {
            let r = sim.read_mem(x, ctx);
            let got = match &r { Ok(w) => *w, Err(_) => { assert!(false, "privileged read failed"); return; } };
            if mapped && x == ra {
                let want = match which { 0 => pc0, 1 => psr0, _ => ssp0 };
                assert!(got == Word::new_init(want), "read at a mapped address did not return the internal register");
                assert!(unsafe { LAST.is_none() }, "read at a mapped address also reached a device");
            } else if added && x == port {
                assert!(got == Word::new_init(0x1100 + 9), "read at a device port did not return the device's answer");
                assert!(unsafe { LAST } == Some(RecCall { tag: 9, write: false, addr: x, arg: ctx.io_effects as u16 }), "device read arguments");
            } else {
                assert!(got == before_x, "read at an unowned address changed / invented data");
                assert!(unsafe { LAST.is_none() }, "read at an unowned address reached a device");
            }
            std::mem::forget(r);
        } else {
            let d: u16 = nd::any();
            let r = sim.write_mem(x, Word::new_init(d), ctx);
            assert!(r.is_ok(), "privileged write failed");
            if mapped && x == ra {
                match which {
                    0 => assert!(sim.pc == d, "write to the mapped PC"),
                    1 => {
                        let cc = d & 7;
                        let cc = if cc == 1 || cc == 2 || cc == 4 { cc } else { 2 };
                        assert!(sim.psr().get() == (d & 0x8700) | cc, "write to the mapped PSR (masked, condition code kept one-hot)");
                    }
                    _ => assert!(sim.verif_saved_sp() == Word::new_init(d), "write to the mapped saved SP"),
                }
                assert!(unsafe { LAST.is_none() }, "write at a mapped address also reached a device");
                assert!(sim.mem[x] == Word::new_init(d), "mirror cell of a mapped register");
            } else if added && x == port {
                assert!(unsafe { LAST } == Some(RecCall { tag: 9, write: true, addr: x, arg: d }), "device write arguments");
                assert!(sim.mem[x] == Word::new_init(d), "mirror cell of a device port");
            } else if x >= 0xFE00 {
                assert!(unsafe { LAST.is_none() }, "write at an unowned port reached a device");
                assert!(sim.mem[x] == before_x, "write to an unowned port changed memory");
            } else {
                assert!(sim.mem[x] == Word::new_init(d), "ordinary memory write");
            }
            if !(mapped && x == ra) {
                assert!(sim.pc == pc0 && sim.psr().get() == psr0 && sim.verif_saved_sp().get() == ssp0, "write changed an internal register it is not mapped to");
            }
            std::mem::forget(r);
        }
        // unmapping undoes the mapping
        assert!(sim.munmap_internal(ra) == mapped, "munmap_internal result");
        crate::nd_cover!(mapped && x == ra && added && port == ra, "register and device on the same address");
        crate::nd_cover!(!do_write && added && x == port && !(mapped && x == ra), "device read");
        crate::nd_cover!(do_write && x >= 0xFE00 && !(mapped && x == ra) && !(added && x == port), "write to an unowned port");
        assert_mem_ok();
        std::mem::forget(sim);
    }

    crate::harnesses! {
        #[kani::unwind(10)]
        #[kani::stub(std::hash::RandomState::new, crate::kstep::stub_random_state)]
        #[kani::stub(<std::hash::DefaultHasher as std::hash::Hasher>::write, crate::kstep::stub_hasher_write)]
        #[kani::stub(<std::hash::DefaultHasher as std::hash::Hasher>::finish, crate::kstep::stub_hasher_finish)]
        #[kani::stub(<lc3_ensemble::sim::mem::MemArray as std::ops::Index<u16>>::index, crate::kstep::stub_mem_index)]
        #[kani::stub(<lc3_ensemble::sim::mem::MemArray as std::ops::IndexMut<u16>>::index_mut, crate::kstep::stub_mem_index_mut)]
        #[kani::stub(lc3_ensemble::sim::device::BufferedKeyboard::try_input, super::stub_try_input)]
        #[kani::stub(lc3_ensemble::sim::device::BufferedDisplay::try_output, super::stub_try_output)]
        fn c32_mmio_precedence() { body() }
    }
}
