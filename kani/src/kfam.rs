//! The K-step harness family: one parametrised body serving C08, C09, C14, C16, C27(a), C28(a).
//! Each property asserts its own slice of the comparison; CBMC's formula slicing keeps every
//! harness to the part of the step its assertions depend on.
use crate::c08::{shape_class, CLASS_ANY, CLASS_IRQ};
use crate::kstep::*;
use crate::nd;
use crate::spec::instr::SI;
use crate::spec::isa::*;
use lc3_ensemble::sim::mem::Word;

#[derive(Clone, Copy)]
pub struct Opts {
    pub class: u8,
    pub strict: Option<bool>,
    pub real_traps: Option<bool>,
    pub ignore_priv: Option<bool>,
    pub alloca: usize,
    /// constrain the pre-state to user mode (PSR[15] = 1)
    pub user: bool,
    /// all registers, the saved SP and every materialised memory cell fully initialised
    pub all_init: bool,
    pub a_arch: bool,
    pub a_mem: bool,
    pub a_calls: bool,
    pub a_depth: bool,
    pub a_obs: bool,
    pub a_c09: bool,
    /// C14: compare against the NON-strict model unless the step fails with a strict error
    pub a_c14: bool,
    /// C14 second half: no strict error at all
    pub a_no_strict_err: bool,
    /// C16: query the faulting address afterwards
    pub prefetch_pc: bool,
    /// how the step is driven: 0 step_in, 1 run_with_limit(1), 2 step_over, 3 step_out,
    /// 4 run_with_limit(1) with one PC breakpoint (C13)
    pub mode: u8,
    /// C12: the simulator runs with real traps, the model with virtual traps; steps that neither halt
    /// nor fault under virtual traps must be identical
    pub a_c12: bool,
    /// install the default internal-register mappings (PSR at xFFFC, MCR at xFFFE) before the step
    pub iregs: bool,
    /// C27(b): run with debug frames on (from an empty frame list) and check the frame pushed
    pub debug_frames: bool,
}

pub const BASE: Opts = Opts {
    class: 0, strict: Some(false), real_traps: None, ignore_priv: None, alloca: 0, user: false, all_init: false,
    a_arch: false, a_mem: false, a_calls: false, a_depth: false, a_obs: false, a_c09: false, a_c14: false,
    a_no_strict_err: false, prefetch_pc: false, mode: 0, a_c12: false, iregs: false, debug_frames: false,
};

fn all_init_state(sim: &lc3_ensemble::sim::Simulator) {
    let mut j = 0;
    while j < 8 {
        nd::assume(sim.reg_file[REGS[j]].is_init());
        j += 1;
    }
    nd::assume(sim.verif_saved_sp().is_init());
    lm_assume_all_init();
}

pub fn run(o: Opts) {
    let cfg = Cfg { strict: o.strict, real_traps: o.real_traps, ignore_priv: o.ignore_priv, debug_frames: o.debug_frames,
                    alloca: o.alloca, interrupts: o.class == CLASS_IRQ || o.class == CLASS_ANY };
    let (mut sim, mut script) = any_sim(&cfg);
    if o.mode != 0 {
        // C13 drivers: the loop condition of run_while must be decidable by constant propagation after
        // the first executed step, otherwise symbolic execution pays for a second full step. Bound:
        // no interrupt pending at the first boundary (an interrupt entry does not count as an executed
        // instruction, so run_with_limit(1) legitimately runs on) and a concrete instruction counter.
        script.poll = PollAns::None;
        unsafe { SH.script.poll = PollAns::None; }
        sim.instructions_run = 7;
        if o.mode == 5 {
            // step_out at top level: the depth is a constant so that the guarded run_while call is
            // pruned by constant propagation when the implementation is right
            sim.frame_stack = lc3_ensemble::sim::frame::FrameStack::verif_new_empty(false, 0);
        }
    }
    shape_class(&mut sim, &script, o.class);
    if o.user {
        nd::assume(sim.psr().get() >> 15 == 1);
    }
    if o.iregs {
        use lc3_ensemble::sim::InternalRegister;
        let a = sim.mmap_internal(PSR_ADDR, InternalRegister::PSR);
        let b = sim.mmap_internal(MCR_ADDR, InternalRegister::MCR);
        assert!(a.is_ok() && b.is_ok(), "default internal-register mappings refused");
        std::mem::forget((a, b));
        // run-style drivers set the MCR themselves before the first step
        let m: bool = if o.mode != 0 { true } else { nd::any() };
        sim.mcr().store(m, std::sync::atomic::Ordering::Relaxed);
        // Stack pushes of an OS entry landing ON the mapped registers (supervisor stack pointer at the
        // very top of the I/O page) rewrite the PSR in the middle of the entry sequence: outside the claim.
        let r6 = sim.reg_file[REGS[6]].get();
        let ss = sim.verif_saved_sp().get();
        nd::assume(!(r6 >= 0xFFFD || r6 == 0) && !(ss >= 0xFFFD || ss == 0));
    }
    if o.debug_frames {
        // the frame list starts empty, so the counter must too
        nd::assume(sim.frame_stack.len() == 0);
    }
    if o.all_init {
        all_init_state(&sim);
    }
    let pre_ssp = sim.verif_saved_sp().get();
    let pre_psr_for_cover = sim.psr().get();
    let pre_r6 = sim.reg_file[REGS[6]];
    let user_pre = sim.psr().get() >> 15 == 1;
    // witness cell for the frame condition over all 65536 words
    let k: u16 = nd::any();
    let before_k = pin_mem(&mut sim, k);
    if o.all_init {
        nd::assume(before_k.is_init());
    }
    let model_strict = if o.a_c14 { Some(false) } else { None };
    let e = predict_rt(&mut sim, script, model_strict, o.all_init, o.iregs, if o.a_c12 { Some(false) } else { None });
    if o.a_c12 {
        // the step is an ordinary one under virtual traps: no HALT, no error
        nd::assume(e.code == R_OK && !e.halted);
    }
    let pre_irun = sim.instructions_run;
    let pre_depth = sim.frame_stack.len();
    // a HashSet insert with a symbolic key does not finish (DESIGN.md section 9): the breakpoint address is
    // a constant, the machine's PC stays symbolic
    let bp_pc: u16 = if o.mode == 4 { 0x3005 } else { nd::any() };
    // run-style drivers (C13): the harness covers executions in which the documented stop condition
    // holds after the first step (bound: one executed step per call)
    let r = match o.mode {
        0 => sim.step_in(),
        1 | 4 => {
            nd::assume(e.code != R_OK || e.halted || e.irun == pre_irun.wrapping_add(1));
            if o.mode == 4 {
                sim.breakpoints.insert(lc3_ensemble::sim::debug::Breakpoint::PC(bp_pc));
            }
            sim.run_with_limit(1)
        }
        2 => {
            nd::assume(e.code != R_OK || e.halted || e.depth <= pre_depth);
            sim.step_over()
        }
        3 => {
            nd::assume(pre_depth != 0);
            nd::assume(e.code != R_OK || e.halted || e.depth < pre_depth);
            sim.step_out()
        }
        _ => {
            // step_out at top level (depth 0) executes nothing at all
            nd::assume(pre_depth == 0);
            let pre_pc = sim.pc;
            let r = sim.step_out();
            assert!(r.is_ok() && sim.pc == pre_pc && sim.instructions_run == pre_irun && sim.frame_stack.len() == 0,
                    "step_out at frame depth 0 executed something");
            assert!(device_io_calls() == 0 && polls() == 0, "step_out at frame depth 0 touched a device");
            finish(sim, r);
            return;
        }
    };
    let got = err_code(&r);
    if o.mode != 0 {
        use std::sync::atomic::Ordering;
        assert!(!sim.mcr().load(Ordering::Relaxed), "MCR left set after a run-style call returned");
        // the machine counts as halted when a HALT was executed or the executed instruction cleared the
        // MCR through its mapped register (the OS's real HALT routine does exactly that)
        let mcr_off = o.iregs && !e.mcr;
        assert!(sim.hit_halt() == (got == R_OK && (e.halted || mcr_off)), "hit_halt() differs from 'a HALT was executed or the MCR was cleared'");
        crate::nd_cover!(got == R_OK && !e.halted && mcr_off, "[mcr] the executed instruction cleared the MCR");
        let want_bp = o.mode == 4 && got == R_OK && !e.halted && e.pc == bp_pc;
        assert!(sim.hit_breakpoint() == want_bp, "hit_breakpoint() differs from 'a breakpoint matched after the executed instruction'");
        crate::nd_cover!(want_bp, "[bp] stopped at the breakpoint");
        crate::nd_cover!(o.mode == 4 && got == R_OK && !e.halted && e.pc != bp_pc, "[bp] breakpoint not matched");
        crate::nd_cover!(e.halted, "[run] halted");
        crate::nd_cover!(got == R_OK && !e.halted, "[run] stopped by its condition");
    }

    if o.a_c14 {
        // Either strict mode rejects the step with an uninitialised-value error, or the step is
        // exactly the non-strict step.
        if got != E_STRICT {
            assert_arch(&sim, &e, got);
            assert!(sim.frame_stack.len() == e.depth, "strict mode changed the frame depth of an accepted step");
            assert!(sim.mem[k] == e.final_mem(k, before_k), "strict mode changed memory of an accepted step");
            assert_calls(&e);
        }
        crate::nd_cover!(got == E_STRICT, "[c14] strict error raised");
        crate::nd_cover!(got == R_OK, "[c14] strict step accepted");
    }
    if o.a_no_strict_err {
        assert!(got != E_STRICT, "strict error on a fully initialised machine");
        crate::nd_cover!(got == R_OK, "[c14i] initialised machine steps");
    }
    if o.a_arch {
        assert_arch(&sim, &e, got);
    }
    if o.a_c12 {
        crate::nd_cover!(e.frame_push.is_some(), "[c12] TRAP / interrupt entry agrees");
        crate::nd_cover!(e.neff > 0, "[c12] store agrees");
    }
    if o.iregs {
        // (after a run-style call the MCR is always cleared: asserted with the run-style checks)
        assert!(o.mode != 0 || sim.mcr().load(std::sync::atomic::Ordering::Relaxed) == e.mcr, "MCR differs from the model");
        crate::nd_cover!(e.psr != pre_psr_for_cover && e.neff > 0, "[iregs] PSR changed");
    }
    if o.a_depth {
        assert!(sim.frame_stack.len() == e.depth, "frame depth differs from the model");
        crate::nd_cover!(e.frame_push.is_some(), "[depth] frame pushed");
        crate::nd_cover!(e.frame_pop, "[depth] frame popped");
    }
    if o.debug_frames {
        use lc3_ensemble::sim::frame::FrameType;
        let frames = sim.frame_stack.frames();
        assert!(frames.is_some(), "debug frames requested but no frame list kept");
        let frames = frames.unwrap();
        assert!(frames.len() as u64 == sim.frame_stack.len(), "frame list length differs from the frame depth");
        match e.frame_push {
            Some((caller, callee, kind)) if e.depth == 1 => {
                assert!(frames.len() == 1, "a call / trap / interrupt did not push exactly one frame");
                let f = &frames[0];
                assert!(f.caller_addr == caller, "frame holds the wrong calling / interrupted instruction address");
                assert!(f.callee_addr == callee, "frame holds the wrong subroutine start / vector");
                let k = match f.frame_type { FrameType::Subroutine => FT_SUB, FrameType::Trap => FT_TRAP, FrameType::Interrupt => FT_INT };
                assert!(k == kind, "frame holds the wrong call kind");
                assert!(f.arguments.is_empty() && f.frame_ptr.is_none(), "arguments recorded without a registered signature");
            }
            _ => {}
        }
        crate::nd_cover!(e.frame_push.is_some() && e.depth == 1, "[frames] frame pushed");
    }
    if o.a_mem {
        assert!(sim.mem[k] == e.final_mem(k, before_k), "memory cell differs from the ISA model (write set / frame condition)");
        crate::nd_cover!(e.neff > 0, "[mem] memory effect predicted");
    }
    if o.a_calls {
        assert_calls(&e);
        crate::nd_cover!(e.ncalls > 1, "[calls] device I/O predicted");
    }
    if o.a_obs {
        // every non-I/O address: the recorded access set equals the model's
        if k < IO_START {
            assert!(observed_at(&sim, k) == e.obs_at(k), "access observer entry differs from the accesses the step made");
        }
        assert_obs_bounded();
        crate::nd_cover!(k < IO_START && e.obs_at(k) == OBS_READ, "[obs] cell read only");
        crate::nd_cover!(k < IO_START && e.obs_at(k) == (OBS_WRITTEN | OBS_MODIFIED), "[obs] cell modified");
        crate::nd_cover!(k < IO_START && e.obs_at(k) == OBS_WRITTEN, "[obs] cell rewritten with the same word");
        crate::nd_cover!(k < IO_START && e.obs_at(k) == (OBS_READ | OBS_WRITTEN | OBS_MODIFIED), "[obs] cell read and modified");
    }
    if o.a_c09 {
        // Independent of the model's step logic: what a user-mode step may touch.
        // Supervisor-side accesses of TRAP / real-trap exception entry: the two supervisor stack
        // slots and one vector table entry.
        let entered = sim.psr().get() >> 15 == 0; // the step ended in supervisor mode
        let s1 = pre_ssp.wrapping_sub(1);
        let s2 = pre_ssp.wrapping_sub(2);
        let allowed = |a: u16| -> bool { in_user_space(a) || (entered && (a == s1 || a == s2 || a < 0x0200)) };
        // (1) the witness cell outside the allowed set is unchanged
        if !allowed(k) {
            assert!(sim.mem[k] == before_k, "user-mode step changed memory outside user space");
            assert!(observed_at(&sim, k) == 0, "user-mode step accessed an address outside user space");
        }
        // (2) no device is reached from user mode; after entering the OS only through the stack slots
        assert_device_addrs(|a| entered && (a == s1 || a == s2));
        if !entered {
            assert!(device_io_calls() == 0, "user-mode step reached a device");
            // (3) an attempt outside user space is reported, and RTI never executes
            let mut j = 0;
            let mut outside = false;
            while j < 6 {
                if j < e.ntouched && !in_user_space(e.touched[j]) {
                    outside = true;
                }
                j += 1;
            }
            if outside {
                assert!(got == E_ACV, "access outside user space not reported as an access violation");
            }
            if matches!(e.decoded, Some(SI::Rti)) {
                assert!(got == E_PRIV, "RTI in user mode not reported as a privilege violation");
                assert!(sim.reg_file[REGS[6]] == pre_r6, "RTI in user mode popped the stack");
            }
        } else {
            // entered the OS: only through TRAP, or (real traps) an exception vector
            let via_trap = matches!(e.decoded, Some(SI::Trap { .. }));
            let via_int = matches!(e.frame_push, Some((_, _, FT_INT)));
            assert!(via_trap || via_int || sim.flags.use_real_traps, "user-mode step gained supervisor privilege without TRAP, interrupt or exception");
            assert!(got == R_OK, "OS entry reports an error");
        }
        assert!(user_pre, "harness: pre-state is user mode");
        crate::nd_cover!(got == E_ACV, "[c09] access violation reported");
        crate::nd_cover!(got == E_PRIV, "[c09] privilege violation reported");
        crate::nd_cover!(entered, "[c09] entered the OS");
        crate::nd_cover!(got == R_OK && !entered, "[c09] plain user step");
    }
    if o.prefetch_pc {
        let _ = sim.prefetch_pc();
    }
    assert_mem_ok();
    crate::nd_cover!(got == R_OK, "[step] step succeeds");
    crate::nd_cover!(got != R_OK, "[step] step reports an error");
    finish(sim, r);
}

/// Wraps a harness body with the stub catalogue of the K-step family.
#[macro_export]
macro_rules! kstep_harnesses {
    ($($name:ident = $body:expr;)*) => {
        $crate::harnesses! {
            $(
                #[kani::unwind(11)]
                #[kani::stub(<lc3_ensemble::sim::device::DeviceHandler as lc3_ensemble::sim::device::ExternalDevice>::io_read, crate::kstep::stub_io_read)]
                #[kani::stub(<lc3_ensemble::sim::device::DeviceHandler as lc3_ensemble::sim::device::ExternalDevice>::io_write, crate::kstep::stub_io_write)]
                #[kani::stub(<lc3_ensemble::sim::device::DeviceHandler as lc3_ensemble::sim::device::ExternalDevice>::poll_interrupt, crate::kstep::stub_poll)]
                #[kani::stub(lc3_ensemble::sim::observer::AccessObserver::update_mem_accesses, crate::kstep::stub_update_mem_accesses)]
                #[kani::stub(std::hash::RandomState::new, crate::kstep::stub_random_state)]
                #[kani::stub(<std::hash::DefaultHasher as std::hash::Hasher>::write, crate::kstep::stub_hasher_write)]
                #[kani::stub(<std::hash::DefaultHasher as std::hash::Hasher>::finish, crate::kstep::stub_hasher_finish)]
                #[kani::stub(std::mem::swap, crate::kstep::stub_swap)]
                #[kani::stub(<lc3_ensemble::sim::mem::MemArray as std::ops::Index<u16>>::index, crate::kstep::stub_mem_index)]
                #[kani::stub(<lc3_ensemble::sim::mem::MemArray as std::ops::IndexMut<u16>>::index_mut, crate::kstep::stub_mem_index_mut)]
                fn $name() { $body }
            )*
        }
    };
}
