//! C25 (position arithmetic) - `SourceInfo::{count_lines, get_pos_pair}` over an arbitrary line
//! index. The index is built through the hook `SourceInfo::verif_from_parts` with a concrete
//! 6-byte source and symbolic, strictly increasing newline positions followed by the length
//! (the invariant `from_string` establishes). Building the index from text and the whitespace
//! trimming of `line_span`/`read_line` scan a `str` and are out of reach (DESIGN.md section 9).
use crate::nd;
use lc3_ensemble::asm::SourceInfo;

const LEN: usize = 6;

fn body(nl: usize) {
    let p0: usize = nd::any();
    let p1: usize = nd::any();
    let p2: usize = nd::any();
    nd::assume(p0 < LEN && p1 < LEN && p2 < LEN && p0 < p1 && p1 < p2);
    let idx: Vec<usize> = match nl {
        0 => vec![LEN],
        1 => vec![p0, LEN],
        2 => vec![p0, p1, LEN],
        _ => vec![p0, p1, p2, LEN],
    };
    let pos = [p0, p1, p2];
    let si = SourceInfo::verif_from_parts(String::from("abcdef"), idx);
    assert!(si.count_lines() == nl + 1, "line count is newlines + 1");
    let i: usize = nd::any();
    nd::assume(i <= LEN + 10);
    let (line, col) = si.get_pos_pair(i);
    // model: the line of an index is the number of newlines strictly before it, capped at the last line
    let mut want_line = 0;
    let mut j = 0;
    while j < 3 {
        if j < nl && pos[j] < i { want_line += 1; }
        j += 1;
    }
    let start = if want_line == 0 { 0 } else { pos[want_line - 1] + 1 };
    assert!(line == want_line, "line of a character index (past the end: the last line)");
    assert!(col == i - start, "column is measured from the start of that line");
    crate::nd_cover!(i > LEN, "index past the end");
    crate::nd_cover!(i <= LEN && (want_line > 0 || nl == 0), "index inside the source (on a later line if there is one)");
    std::mem::forget(si);
}

crate::harnesses! {
    #[kani::unwind(6)]
    fn c25_pos_nl0() { body(0) }
    #[kani::unwind(6)]
    fn c25_pos_nl1() { body(1) }
    #[kani::unwind(6)]
    fn c25_pos_nl2() { body(2) }
    #[kani::unwind(6)]
    fn c25_pos_nl3() { body(3) }
}
