//! C33 (device level) - keyboard and display under lock contention.
//! Contention is REAL: the harness holds the buffer's write lock across the device access when the
//! symbolic boolean `held` says another thread holds it at that moment. Real code:
//! `BufferedKeyboard`/`BufferedDisplay` `ExternalDevice` impls, `DevWrapper`, `try_input/try_output`,
//! `std::sync::RwLock::{try_write, write}`.
use crate::nd;
use lc3_ensemble::sim::device::{BufferedDisplay, BufferedKeyboard, ExternalDevice};
use std::collections::VecDeque;
use std::sync::{Arc, RwLock};

const KBSR: u16 = 0xFE00;
const KBDR: u16 = 0xFE02;
const DSR: u16 = 0xFE04;
const DDR: u16 = 0xFE06;

/// one keyboard access from a queue of exactly `n` (concrete: heap shape) symbolic bytes
fn keyboard_access(n: usize) {
        let b0: u8 = nd::any();
        let b1: u8 = nd::any();
        let q: VecDeque<u8> = match n {
            0 => VecDeque::new(),
            1 => VecDeque::from([b0]),
            _ => VecDeque::from([b0, b1]),
        };
        let buf = Arc::new(RwLock::new(q));
        let mut kb = BufferedKeyboard::new(Arc::clone(&buf));
        let ie: bool = nd::any();
        if ie {
            assert!(kb.io_write(KBSR, 1 << 14), "KBSR write refused");
        }
        let held: bool = nd::any();
        let op: u8 = nd::any();
        nd::assume(op < 5);
        let addr: u16 = nd::any();
        let guard = if held { Some(buf.write().unwrap()) } else { None };
        let (res_read, res_write, res_int) = match op {
            0 => (kb.io_read(KBSR, true), false, None),
            1 => (kb.io_read(KBDR, true), false, None),
            2 => (kb.io_read(KBDR, false), false, None),
            3 => (None, kb.io_write(addr, nd::any()), None),
            _ => (None, false, Some(kb.poll_interrupt())),
        };
        drop(guard);
        let g = buf.read().unwrap();
        let len_after = g.len();
        match op {
            0 => {
                let ready = !held && n > 0;
                assert!(res_read == Some(((ready as u16) << 15) | ((ie as u16) << 14)), "KBSR value");
                assert!(len_after == n, "KBSR read consumed input");
            }
            1 => {
                if held || n == 0 {
                    assert!(res_read.is_none(), "KBDR read delivered a byte it could not take");
                    assert!(len_after == n, "queue changed by a failed KBDR read");
                } else {
                    assert!(res_read == Some(b0 as u16), "KBDR did not deliver the front byte");
                    assert!(len_after == n - 1, "KBDR read did not consume exactly one byte");
                    if n == 2 { assert!(g[0] == b1, "queue order changed"); }
                }
            }
            2 => {
                if held || n == 0 { assert!(res_read.is_none(), "non-effectful KBDR read"); }
                else { assert!(res_read == Some(b0 as u16), "non-effectful KBDR read value"); }
                assert!(len_after == n, "non-effectful KBDR read consumed input");
            }
            3 => {
                assert!(res_write == (addr == KBSR), "keyboard accepted a write outside KBSR");
                assert!(len_after == n, "keyboard write changed the queue");
            }
            _ => {
                let want = !held && n > 0 && ie;
                let r = res_int.unwrap();
                assert!(r.is_some() == want, "keyboard interrupt raised without ready input and enabled interrupts");
                if let Some(i) = &r { assert!(i.priority() == Some(4), "keyboard interrupt priority"); }
                assert!(len_after == n, "poll consumed input");
                std::mem::forget(r);
            }
        }
        if n >= 1 && len_after == n { assert!(g[0] == b0, "front byte changed"); }
        crate::nd_cover!(op == 1 && !held, "uncontended data read");
        crate::nd_cover!(op == 1 && held, "contended data read");
        drop(g);
        std::mem::forget(kb);
        std::mem::forget(buf);
}

crate::harnesses! {
    #[kani::unwind(6)]
    fn c33_keyboard_n0() { keyboard_access(0) }
    #[kani::unwind(6)]
    fn c33_keyboard_n1() { keyboard_access(1) }
    #[kani::unwind(6)]
    fn c33_keyboard_n2() { keyboard_access(2) }
    // one display access from an arbitrary buffer of <= 2 bytes
    #[kani::unwind(6)]
    fn c33_display_access() {
        let n: usize = nd::any();
        nd::assume(n <= 2);
        let b0: u8 = nd::any();
        let b1: u8 = nd::any();
        let mut v = Vec::new();
        if n >= 1 { v.push(b0); }
        if n >= 2 { v.push(b1); }
        let buf = Arc::new(RwLock::new(v));
        let mut ds = BufferedDisplay::new(Arc::clone(&buf));
        let held: bool = nd::any();
        let op: u8 = nd::any();
        nd::assume(op < 3);
        let addr: u16 = nd::any();
        let data: u16 = nd::any();
        let guard = if held { Some(buf.write().unwrap()) } else { None };
        let (res_read, res_write) = match op {
            0 => (ds.io_read(addr, true), false),
            1 => (None, ds.io_write(addr, data)),
            _ => { let r = ds.poll_interrupt(); assert!(r.is_none(), "display raised an interrupt"); std::mem::forget(r); (None, false) }
        };
        drop(guard);
        let g = buf.read().unwrap();
        match op {
            0 => {
                if addr == DSR { assert!(res_read == Some(((!held) as u16) << 15), "DSR value"); }
                else { assert!(res_read.is_none(), "display answered a read outside DSR"); }
                assert!(g.len() == n, "display read changed the buffer");
            }
            1 => {
                if addr == DDR && !held {
                    assert!(res_write, "uncontended DDR write refused");
                    assert!(g.len() == n + 1 && g[n] == data as u8, "DDR write did not append exactly the written byte");
                } else {
                    assert!(!res_write, "display accepted a write it could not perform");
                    assert!(g.len() == n, "failed display write changed the buffer");
                }
            }
            _ => assert!(g.len() == n, "poll changed the buffer"),
        }
        if n >= 1 { assert!(g[0] == b0, "earlier output changed"); }
        if n >= 2 { assert!(g[1] == b1, "earlier output changed"); }
        crate::nd_cover!(op == 1 && addr == DDR && !held, "byte emitted");
        crate::nd_cover!(op == 1 && addr == DDR && held, "contended emit");
        drop(g);
        std::mem::forget(ds);
        std::mem::forget(buf);
    }
}
