//! C09 - user-mode code cannot touch memory or state outside user space (see kfam.rs, `a_c09`).
use crate::kfam::{run, Opts, BASE};
use crate::c08::{G_ALU, G_MEM, G_SYS, CLASS_IOFETCH};
const O: Opts = Opts { user: true, ignore_priv: Some(false), a_c09: true, ..BASE };
crate::kstep_harnesses! {
    c09_all = run(Opts { class: crate::c08::CLASS_ANY, ..O });
    c09_virt_mem = run(Opts { class: G_MEM, real_traps: Some(false), ..O });
    c09_virt_alu = run(Opts { class: G_ALU, real_traps: Some(false), ..O });
    c09_virt_sys = run(Opts { class: G_SYS, real_traps: Some(false), ..O });
    c09_real_mem = run(Opts { class: G_MEM, real_traps: Some(true), ..O });
    c09_real_alu = run(Opts { class: G_ALU, real_traps: Some(true), ..O });
    c09_real_sys = run(Opts { class: G_SYS, real_traps: Some(true), ..O });
    c09_iofetch = run(Opts { class: CLASS_IOFETCH, ..O });
}
