//! Native replayer: `replay <harness> <values.json>` runs the harness body against a native build
//! of /repo with the concrete values of a solver counterexample.
//! exit 0: harness ran to the end, no assertion failed (counterexample NOT reproduced)
//! exit 101: an assertion / panic fired (reproduced)
//! exit 3: an assumption was violated by the values; exit 4: values exhausted / malformed.
#[cfg(not(kani))]
fn main() {
    let args: Vec<String> = std::env::args().collect();
    if args.len() == 2 && args[1] == "--list" {
        for t in lc3v::tables() {
            for (n, _) in t.iter() {
                println!("{n}");
            }
        }
        return;
    }
    if args.len() != 3 {
        eprintln!("usage: replay <harness> <values-file> | --list");
        std::process::exit(2);
    }
    let f = lc3v::lookup(&args[1]).unwrap_or_else(|| {
        eprintln!("unknown harness {}", args[1]);
        std::process::exit(2)
    });
    // values file: one line per any() call, space separated decimal bytes
    let txt = std::fs::read_to_string(&args[2]).expect("values file");
    let vals: Vec<Vec<u8>> = txt
        .lines()
        .map(|l| l.trim())
        .filter(|l| !l.is_empty() && !l.starts_with('#'))
        .map(|l| l.split_whitespace().map(|b| b.parse::<u8>().expect("byte")).collect())
        .collect();
    lc3v::nd::load(vals);
    f();
    println!("REPLAY: harness completed without assertion failure ({} values left)", lc3v::nd::remaining());
}
#[cfg(kani)]
fn main() {}
