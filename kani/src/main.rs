//! Native replayer: `replay <harness> <values.json>` runs the harness body against a native build
//! of /repo with the concrete values of a solver counterexample.
//! exit 0: harness ran to the end, no assertion failed (counterexample NOT reproduced)
//! exit 101: an assertion / panic fired (reproduced)
//! exit 3: an assumption was violated by the values; exit 4: values exhausted / malformed.
#[cfg(not(kani))]
fn main() {
    let args: Vec<String> = std::env::args().collect();
    if args.len() == 2 && args[1] == "--list" {
        for t in lc3v::tables() {
            for (n, _) in t.iter() {
                println!("{n}");
            }
        }
        return;
    }
    if args.len() == 5 && args[1] == "--fuzz" {
        // model validation (NOT the deciding technique): run the harness body natively on
        // pseudo-random values; used while developing the reference models.
        let f = lc3v::lookup(&args[2]).expect("harness");
        let iters: u64 = args[3].parse().unwrap();
        let seed: u64 = args[4].parse().unwrap();
        std::panic::set_hook(Box::new(|_| {}));
        let (mut ran, mut rejected) = (0u64, 0u64);
        for it in 0..iters {
            lc3v::nd::fuzz_begin(seed.wrapping_mul(0x9E3779B97F4A7C15).wrapping_add(it.wrapping_mul(0xD1B54A32D192ED03)));
            let r = std::panic::catch_unwind(f);
            match r {
                Ok(()) => ran += 1,
                Err(e) if e.is::<lc3v::nd::AssumeFail>() => rejected += 1,
                Err(e) => {
                    let msg = e.downcast_ref::<&str>().map(|s| s.to_string())
                        .or_else(|| e.downcast_ref::<String>().cloned()).unwrap_or_default();
                    println!("FUZZ: assertion failed after {ran} runs ({rejected} rejected): {msg}");
                    let rec = lc3v::nd::fuzz_record();
                    let out: Vec<String> = rec.iter().map(|v| v.iter().map(|b| b.to_string()).collect::<Vec<_>>().join(" ")).collect();
                    std::fs::write("/tmp/fuzz_fail.vals", out.join("\n") + "\n").unwrap();
                    println!("values written to /tmp/fuzz_fail.vals");
                    std::process::exit(101);
                }
            }
        }
        println!("FUZZ: {ran} runs passed, {rejected} rejected by assumptions");
        return;
    }
    if args.len() != 3 {
        eprintln!("usage: replay <harness> <values-file> | --list");
        std::process::exit(2);
    }
    let f = lc3v::lookup(&args[1]).unwrap_or_else(|| {
        eprintln!("unknown harness {}", args[1]);
        std::process::exit(2)
    });
    // values file: one line per any() call, space separated decimal bytes
    let txt = std::fs::read_to_string(&args[2]).expect("values file");
    let vals: Vec<Vec<u8>> = txt
        .lines()
        .map(|l| l.trim())
        .filter(|l| !l.is_empty() && !l.starts_with('#'))
        .map(|l| l.split_whitespace().map(|b| b.parse::<u8>().expect("byte")).collect())
        .collect();
    lc3v::nd::load(vals);
    f();
    println!("REPLAY: harness completed without assertion failure ({} values left)", lc3v::nd::remaining());
}
#[cfg(kani)]
fn main() {}
