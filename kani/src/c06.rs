//! C06 – instruction decoding is the exact inverse of encoding.
//! Functions encoded: `SimInstr::decode`, `SimInstr::encode`, `join_bits`, `DecodeUtils::{slice,
//! assert_equals,interpret}`, `FromBits for Reg/IOffset<N>/Offset<u16,N>`, `Offset::new_trunc`,
//! `Reg::try_from`. Full width (every u16 word; every representable instruction).
use crate::nd;
use crate::spec::instr::{self, DecErr, Opnd, SI};
use lc3_ensemble::ast::sim::SimInstr;
use lc3_ensemble::ast::{IOffset, ImmOrReg, Offset, Reg};
use lc3_ensemble::sim::SimErr;

pub fn arb_reg() -> Reg {
    let r: u8 = nd::any();
    nd::assume(r < 8);
    Reg::try_from(r).unwrap()
}
pub fn arb_ioff<const N: u32>() -> IOffset<N> {
    let v: i16 = nd::any();
    let r = Offset::<i16, N>::new(v);
    nd::assume(r.is_ok());
    r.unwrap()
}

/// An arbitrary representable instruction together with the model's view of it.
pub fn arb_instr() -> (SimInstr, SI) {
    let sel: u8 = nd::any();
    nd::assume(sel < 18);
    let a = arb_reg();
    let b = arb_reg();
    let c = arb_reg();
    let (an, bn, cn) = (a.reg_no(), b.reg_no(), c.reg_no());
    match sel {
        0 => {
            let cc: u8 = nd::any();
            nd::assume(cc < 8);
            let o = arb_ioff::<9>();
            (SimInstr::BR(cc, o), SI::Br { cc, off: o.get() })
        }
        1 => (SimInstr::ADD(a, b, ImmOrReg::Reg(c)), SI::Add { dr: an, sr1: bn, op2: Opnd::Reg(cn) }),
        2 => {
            let o = arb_ioff::<5>();
            (SimInstr::ADD(a, b, ImmOrReg::Imm(o)), SI::Add { dr: an, sr1: bn, op2: Opnd::Imm(o.get()) })
        }
        3 => {
            let o = arb_ioff::<9>();
            (SimInstr::LD(a, o), SI::Ld { dr: an, off: o.get() })
        }
        4 => {
            let o = arb_ioff::<9>();
            (SimInstr::ST(a, o), SI::St { sr: an, off: o.get() })
        }
        5 => {
            let o = arb_ioff::<11>();
            (SimInstr::JSR(ImmOrReg::Imm(o)), SI::Jsr { off: o.get() })
        }
        6 => (SimInstr::JSR(ImmOrReg::Reg(a)), SI::Jsrr { br: an }),
        7 => (SimInstr::AND(a, b, ImmOrReg::Reg(c)), SI::And { dr: an, sr1: bn, op2: Opnd::Reg(cn) }),
        8 => {
            let o = arb_ioff::<5>();
            (SimInstr::AND(a, b, ImmOrReg::Imm(o)), SI::And { dr: an, sr1: bn, op2: Opnd::Imm(o.get()) })
        }
        9 => {
            let o = arb_ioff::<6>();
            (SimInstr::LDR(a, b, o), SI::Ldr { dr: an, br: bn, off: o.get() })
        }
        10 => {
            let o = arb_ioff::<6>();
            (SimInstr::STR(a, b, o), SI::Str { sr: an, br: bn, off: o.get() })
        }
        11 => (SimInstr::RTI, SI::Rti),
        12 => (SimInstr::NOT(a, b), SI::Not { dr: an, sr: bn }),
        13 => {
            let o = arb_ioff::<9>();
            (SimInstr::LDI(a, o), SI::Ldi { dr: an, off: o.get() })
        }
        14 => {
            let o = arb_ioff::<9>();
            (SimInstr::STI(a, o), SI::Sti { sr: an, off: o.get() })
        }
        15 => (SimInstr::JMP(a), SI::Jmp { br: an }),
        16 => {
            let o = arb_ioff::<9>();
            (SimInstr::LEA(a, o), SI::Lea { dr: an, off: o.get() })
        }
        _ => {
            let v: u16 = nd::any();
            let r = Offset::<u16, 8>::new(v);
            nd::assume(r.is_ok());
            (SimInstr::TRAP(r.unwrap()), SI::Trap { vect: v as u8 })
        }
    }
}

crate::harnesses! {
    // every 16-bit word
    fn c06_decode_all_words() {
        let w: u16 = nd::any();
        let real = SimInstr::decode(w);
        let spec = instr::decode(w);
        match (&real, &spec) {
            (Ok(r), Ok(s)) => {
                assert!(instr::matches(r, s), "decoded fields differ from the ISA table");
                assert!(r.encode() == w, "re-encoding a decoded word gives a different word");
                assert!(instr::encode(*s) == w, "model self-check: spec encode/decode disagree");
            }
            (Err(SimErr::IllegalOpcode), Err(DecErr::Illegal)) => {}
            (Err(SimErr::InvalidInstrFormat), Err(DecErr::Invalid)) => {}
            (Ok(_), Err(_)) => assert!(false, "non-canonical word accepted by decode"),
            (Err(_), Ok(_)) => assert!(false, "canonical word rejected by decode"),
            _ => assert!(false, "wrong error kind for undecodable word"),
        }
        crate::nd_cover!(matches!(spec, Err(DecErr::Illegal)), "reserved opcode");
        crate::nd_cover!(matches!(spec, Err(DecErr::Invalid)), "non-canonical word");
        crate::nd_cover!(matches!(spec, Ok(SI::Jmp { .. })), "JMP word");
        crate::nd_cover!(matches!(spec, Ok(SI::Trap { .. })), "TRAP word");
        std::mem::forget(real);
    }
    // every representable instruction
    fn c06_encode_all_instrs() {
        let (i, s) = arb_instr();
        let w = i.encode();
        assert!(w == instr::encode(s), "encoding differs from the ISA table");
        let d = SimInstr::decode(w);
        match &d {
            Ok(j) => assert!(*j == i, "decode(encode(i)) != i"),
            Err(_) => assert!(false, "encoding of a representable instruction does not decode"),
        }
        crate::nd_cover!(matches!(s, SI::Jsr { .. }), "JSR");
        crate::nd_cover!(matches!(s, SI::Trap { .. }), "TRAP");
        crate::nd_cover!(matches!(s, SI::Add { op2: Opnd::Imm(-16), .. }), "ADD imm5 = -16");
        std::mem::forget(d);
    }
}
