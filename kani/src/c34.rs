//! C34 - timer interrupts follow the configured interval.
//! Real code: `TimerDevice::{new, set_range, set_exact, reset_remaining, get_remaining, poll_interrupt,
//! io_reset}`, `SampleRange::new`. Stub S-timer: the private `TimerDevice::try_generate_time` (a call
//! into `rand`) returns an arbitrary value inside the configured range - the contract of
//! `Rng::random_range`; ChaCha12 itself is out of reach and trusted.
use crate::nd;
use lc3_ensemble::sim::device::{ExternalDevice, TimerDevice};
use std::ops::{Bound, RangeBounds};

pub const NS: usize = 12;
pub static mut SAMPLES: [u32; NS] = [0; NS];
pub static mut NSAMPLED: usize = 0;

fn in_range(r: &impl RangeBounds<u32>, v: u32) -> bool {
    let lo_ok = match r.start_bound() {
        Bound::Included(&s) => v >= s,
        Bound::Excluded(&s) => v > s,
        Bound::Unbounded => true,
    };
    let hi_ok = match r.end_bound() {
        Bound::Included(&e) => v <= e,
        Bound::Excluded(&e) => v < e,
        Bound::Unbounded => true,
    };
    lo_ok && hi_ok
}

/// S-rng: the generator's next 32-bit output is arbitrary
pub fn stub_next_u32(_this: &mut rand::rngs::StdRng) -> u32 {
    unsafe {
        let j = if NSAMPLED < NS { NSAMPLED } else { NS - 1 };
        NSAMPLED += 1;
        SAMPLES[j]
    }
}
/// S-seed: seeding StdRng runs ChaCha's CPU-feature detection (inline asm `cpuid`, unsupported by
/// Kani). The generator is never consulted (S-timer), so an all-zero generator state stands in.
#[allow(invalid_value)]
pub fn stub_from_seed(_seed: [u8; 32]) -> rand::rngs::StdRng {
    unsafe { std::mem::zeroed() }
}
fn draw_samples() {
    unsafe {
        let mut j = 0;
        while j < NS {
            SAMPLES[j] = nd::any();
            j += 1;
        }
        NSAMPLED = 0;
    }
}

/// A timer with arbitrary remaining time, range, vector, priority (reached through the public API:
/// created with the exact range t..=t, then re-ranged).
fn any_timer(lo: u32, hi: u32, incl: bool) -> (TimerDevice, u32) {
    let t0: u32 = nd::any();
    let vect: u8 = nd::any();
    let prio: u8 = nd::any();
    let mut t = TimerDevice::new(Some(0), t0..=t0, vect, prio);
    assert!(t.get_remaining() == t0, "exact range t..=t must sample t");
    if incl {
        t.set_range(lo..=hi);
    } else {
        t.set_range(lo..hi);
    }
    (t, t0)
}

/// one poll from an arbitrary timer state; `max_width`: bound on hi - lo
fn one_poll(max_width: u32) {
        draw_samples();
        let lo: u32 = nd::any();
        let hi: u32 = nd::any();
        let incl: bool = nd::any();
        nd::assume(if incl { lo <= hi } else { lo < hi });
        // width of the range below 2^16 (the sampler multiplies a random 32-bit word by the width)
        nd::assume(hi - lo < max_width);
        let (mut t, t0) = any_timer(lo, hi, incl);
        let en: bool = nd::any();
        t.enabled = en;
        let prio = t.priority;
        let r = t.poll_interrupt();
        let after = t.get_remaining();
        if !en {
            assert!(r.is_none(), "disabled timer raised an interrupt");
            assert!(after == t0, "disabled timer changed its countdown");
        } else if t0 > 1 {
            assert!(r.is_none(), "timer fired before its countdown reached 1");
            assert!(after == t0 - 1, "countdown did not decrease by one");
        } else if t0 == 1 {
            assert!(r.is_some(), "timer did not fire when the countdown reached 1");
            let p = r.as_ref().unwrap().priority();
            assert!(p == Some(if prio > 7 { 7 } else { prio }), "timer interrupt priority");
            assert!(after == 0, "countdown not cleared after firing");
        } else {
            assert!(r.is_none(), "timer fired on the re-arm poll");
            let hi_ok = if incl { after <= hi } else { after < hi };
            assert!(after >= lo && hi_ok, "re-armed countdown outside the configured range");
        }
        crate::nd_cover!(en && t0 == 1, "fires");
        crate::nd_cover!(en && t0 == 0, "re-arms");
        std::mem::forget(r);
        std::mem::forget(t);
    }

crate::harnesses! {
    #[kani::unwind(14)]
    #[kani::stub(<rand::rngs::StdRng as rand::RngCore>::next_u32, stub_next_u32)]
    #[kani::stub(<rand::rngs::StdRng as rand::SeedableRng>::from_seed, stub_from_seed)]
    fn c34_one_poll() { one_poll(0x100) }
    #[kani::unwind(14)]
    #[kani::stub(<rand::rngs::StdRng as rand::RngCore>::next_u32, stub_next_u32)]
    #[kani::stub(<rand::rngs::StdRng as rand::SeedableRng>::from_seed, stub_from_seed)]
    fn c34_one_poll_w16() { one_poll(0x1_0000) }
    // gaps between consecutive interrupts over a poll sequence, small ranges
    #[kani::unwind(14)]
    #[kani::stub(<rand::rngs::StdRng as rand::RngCore>::next_u32, stub_next_u32)]
    #[kani::stub(<rand::rngs::StdRng as rand::SeedableRng>::from_seed, stub_from_seed)]
    fn c34_gaps() {
        draw_samples();
        let lo: u32 = nd::any();
        let hi: u32 = nd::any();
        nd::assume(1 <= lo && lo <= hi && hi <= 3);
        let exact: bool = nd::any();
        // the same interval written with an inclusive or an exclusive upper bound
        let excl: bool = nd::any();
        let mut t = if excl { TimerDevice::new(Some(0), lo..hi + 1, 0x81, 4) } else { TimerDevice::new(Some(0), lo..=hi, 0x81, 4) };
        if exact {
            nd::assume(lo == hi);
            t.set_exact(lo);
        }
        // enabling / resetting re-arms the countdown
        let via_reset: bool = nd::any();
        if via_reset {
            t.io_reset();
        }
        t.enabled = true;
        let mut last: Option<u32> = None; // poll index of the previous interrupt
        let mut fired = 0u32;
        let mut i: u32 = 1;
        while i <= 10 {
            let r = t.poll_interrupt();
            if r.is_some() {
                match last {
                    None => assert!(i <= hi + 1, "first interrupt later than max+1 polls after enabling/reset"),
                    Some(l) => {
                        let between = i - l - 1; // polls strictly between the two interrupts
                        assert!(between >= lo && between <= hi, "gap between consecutive timer interrupts outside the range");
                        if exact {
                            assert!(between == lo, "exact timer gap differs from n");
                        }
                    }
                }
                last = Some(i);
                fired += 1;
            }
            std::mem::forget(r);
            i += 1;
        }
        // with hi <= 3 ten polls contain at least two interrupts: the timer keeps firing
        assert!(fired >= 2, "enabled timer stopped raising interrupts");
        crate::nd_cover!(fired == 5, "gap 1 sequence");
        crate::nd_cover!(lo == 3 && hi == 3, "exact 3");
        crate::nd_cover!(excl && lo < hi, "exclusive upper bound");
        std::mem::forget(t);
    }
    // a disabled timer never fires, however long it is polled (inductive: one poll keeps the state)
    #[kani::unwind(14)]
    #[kani::stub(<rand::rngs::StdRng as rand::RngCore>::next_u32, stub_next_u32)]
    #[kani::stub(<rand::rngs::StdRng as rand::SeedableRng>::from_seed, stub_from_seed)]
    fn c34_disabled() {
        draw_samples();
        let (mut t, t0) = any_timer(1, 5, true);
        t.enabled = false;
        let mut i = 0;
        while i < 4 {
            let r = t.poll_interrupt();
            assert!(r.is_none(), "disabled timer raised an interrupt");
            std::mem::forget(r);
            i += 1;
        }
        assert!(t.get_remaining() == t0, "disabled timer counted down");
        assert!(t.io_read(0xFE10, true).is_none() && !t.io_write(0xFE10, 1), "timer answered MMIO");
        std::mem::forget(t);
    }
}
