//! K-step family: one real `Simulator::step_in` from an arbitrary machine state, compared with
//! `spec::isa::Model`. See DESIGN.md section 2.3/2.4/3.
//!
//! Stubs in force under Kani (part of every claim made with this module):
//!  * S-dev: `<DeviceHandler as ExternalDevice>::{io_read, io_write, poll_interrupt}` return the
//!    pre-drawn answers of a `DevScript` (any device population) and log their calls;
//!  * S-obs: `AccessObserver::update_mem_accesses` logs `(addr, flags)` into a fixed array.
//! In a native replay the same script is delivered by real `ScriptedDevice`s registered on every
//! I/O port and the real observer is read back.

use crate::nd;
use crate::spec::isa::*;
use lc3_ensemble::ast::Reg;
use lc3_ensemble::sim::device::{DeviceHandler, ExternalDevice, Interrupt};
use lc3_ensemble::sim::frame::FrameStack;
use lc3_ensemble::sim::mem::{MemArray, RegFile, Word};
use lc3_ensemble::sim::observer::{AccessObserver, AccessSet};
use lc3_ensemble::sim::{SimErr, SimFlags, Simulator};

// ------------------------------------------------------------------------------------------
// shared script / log state (static: the Kani stubs have no other way to reach it)

pub struct Shared {
    pub script: DevScript,
    pub nread: usize,
    pub nwrite: usize,
    pub npoll: usize,
    pub calls: [Call; MAX_CALLS],
    pub ncalls: usize,
    pub obs: [(u16, u8); MAX_OBS],
    pub nobs: usize,
    pub overflow: bool,
}
const NOCALL: Call = Call { kind: 9, addr: 0, arg: 0 };
pub static mut SH: Shared = Shared {
    script: DevScript { poll: PollAns::None, read_ans: [None; MAX_READS], write_ans: [false; MAX_WRITES] },
    nread: 0,
    nwrite: 0,
    npoll: 0,
    calls: [NOCALL; MAX_CALLS],
    ncalls: 0,
    obs: [(0, 0); MAX_OBS],
    nobs: 0,
    overflow: false,
};

#[derive(Debug)]
pub struct ExtErr;
impl std::fmt::Display for ExtErr {
    fn fmt(&self, f: &mut std::fmt::Formatter<'_>) -> std::fmt::Result {
        f.write_str("external")
    }
}
impl std::error::Error for ExtErr {}

fn sh_log(kind: u8, addr: u16, arg: u16) {
    unsafe {
        if SH.ncalls < MAX_CALLS {
            SH.calls[SH.ncalls] = Call { kind, addr, arg };
            SH.ncalls += 1;
        } else {
            SH.overflow = true;
        }
    }
}
pub fn sh_io_read(addr: u16, effectful: bool) -> Option<u16> {
    sh_log(CALL_READ, addr, effectful as u16);
    unsafe {
        if SH.nread < MAX_READS {
            let a = SH.script.read_ans[SH.nread];
            SH.nread += 1;
            a
        } else {
            SH.overflow = true;
            None
        }
    }
}
pub fn sh_io_write(addr: u16, data: u16) -> bool {
    sh_log(CALL_WRITE, addr, data);
    unsafe {
        if SH.nwrite < MAX_WRITES {
            let a = SH.script.write_ans[SH.nwrite];
            SH.nwrite += 1;
            a
        } else {
            SH.overflow = true;
            false
        }
    }
}
pub fn sh_poll() -> Option<Interrupt> {
    sh_log(CALL_POLL, 0, 0);
    unsafe {
        SH.npoll += 1;
        match SH.script.poll {
            PollAns::None => None,
            PollAns::Vect { vect, prio } => Some(Interrupt::vectored(vect, prio)),
            PollAns::External => Some(Interrupt::external(ExtErr)),
        }
    }
}

// Kani stubs (signatures mirror the stubbed methods)
pub fn stub_io_read(_this: &mut DeviceHandler, addr: u16, effectful: bool) -> Option<u16> {
    sh_io_read(addr, effectful)
}
pub fn stub_io_write(_this: &mut DeviceHandler, addr: u16, data: u16) -> bool {
    sh_io_write(addr, data)
}
pub fn stub_poll(_this: &mut DeviceHandler) -> Option<Interrupt> {
    sh_poll()
}
/// S-rand: `HashMap::new()` reaches the `getrandom` syscall through `RandomState::new`; hash-map
/// behaviour must not depend on the keys, so fixed keys are used.
pub fn stub_random_state() -> std::hash::RandomState {
    unsafe { std::mem::transmute::<[u64; 2], std::hash::RandomState>([0x0123_4567_89ab_cdef, 0x0fed_cba9_8765_4321]) }
}
/// S-hash: the SipHash state machine is replaced by the constant hash function 0 (a legal hash
/// function: every key collides, equality of keys still decides every lookup), so hashbrown's
/// behaviour is preserved while ~1000 64-bit rotate/add checks per lookup disappear.
pub fn stub_hasher_write(_this: &mut std::hash::DefaultHasher, _msg: &[u8]) {}
pub fn stub_hasher_finish(_this: &std::hash::DefaultHasher) -> u64 {
    0
}
/// S-swap: `mem::swap::<T>` by plain moves instead of core's chunked byte loops.
pub fn stub_swap<T>(a: &mut T, b: &mut T) {
    unsafe {
        let t = std::ptr::read(a);
        std::ptr::copy_nonoverlapping(b as *const T, a as *mut T, 1);
        std::ptr::write(b, t);
    }
}
pub fn set_flags(s: AccessSet) -> u8 {
    (s.read() as u8) | ((s.written() as u8) << 1) | ((s.modified() as u8) << 2)
}
pub fn stub_update_mem_accesses(_this: &mut AccessObserver, addr: u16, set: AccessSet) {
    unsafe {
        if SH.nobs < MAX_OBS {
            SH.obs[SH.nobs] = (addr, set_flags(set));
            SH.nobs += 1;
        } else {
            SH.overflow = true;
        }
    }
}

// native replay: the script is delivered by real devices
#[derive(Clone, Copy)]
pub struct ScriptedDevice {
    pub answers_poll: bool,
}
impl ExternalDevice for ScriptedDevice {
    fn io_read(&mut self, addr: u16, effectful: bool) -> Option<u16> {
        sh_io_read(addr, effectful)
    }
    fn io_write(&mut self, addr: u16, data: u16) -> bool {
        sh_io_write(addr, data)
    }
    fn io_reset(&mut self) {}
    fn poll_interrupt(&mut self) -> Option<Interrupt> {
        if self.answers_poll {
            sh_poll()
        } else {
            None
        }
    }
}

pub fn make_devices() -> DeviceHandler {
    let mut dh = DeviceHandler::new();
    #[cfg(not(kani))]
    {
        dh.set_keyboard(ScriptedDevice { answers_poll: false });
        dh.set_display(ScriptedDevice { answers_poll: false });
        let ports: Vec<u16> = (0xFE00u16..=0xFFFF).filter(|p| ![0xFE00, 0xFE02, 0xFE04, 0xFE06].contains(p)).collect();
        dh.add_device(ScriptedDevice { answers_poll: true }, &ports).ok().expect("ports free");
    }
    dh
}

// ------------------------------------------------------------------------------------------
// symbolic state

pub fn any_word() -> Word {
    let d: u16 = nd::any();
    let i: u16 = nd::any();
    Word::verif_from_parts(d, i)
}

/// Lazily materialised memory (S-mem). Under Kani `<MemArray as Index<u16>>::index` and
/// `IndexMut::index_mut` are replaced by an associative store of at most `LM_K` cells: the first
/// access to an address allocates a cell whose content is an arbitrary, pre-drawn word; later
/// accesses to the same address hit the same cell. For executions that touch at most `LM_K`
/// distinct addresses (asserted) this is exactly a memory with arbitrary initial contents, and it
/// costs a handful of comparisons instead of a 2 x 65536 x 16-bit array.
pub const LM_K: usize = 8;
pub static mut LM_ADDR: [u16; LM_K] = [0; LM_K];
pub static mut LM_VAL: std::mem::MaybeUninit<[Word; LM_K]> = std::mem::MaybeUninit::zeroed();
pub static mut LM_N: usize = 0;
pub static mut LM_EXHAUSTED: bool = false;

fn lm_slot(addr: u16) -> usize {
    // concrete loop counters: every array index below is a constant for the solver
    unsafe {
        let mut found = LM_K;
        let mut j = 0;
        while j < LM_K {
            if j < LM_N && LM_ADDR[j] == addr && found == LM_K {
                found = j;
            }
            j += 1;
        }
        if found < LM_K {
            return found;
        }
        if LM_N >= LM_K {
            LM_EXHAUSTED = true;
            // reuse the last cell; the harness asserts !LM_EXHAUSTED
            return LM_K - 1;
        }
        let n = LM_N;
        let mut j = 0;
        while j < LM_K {
            if j == n {
                LM_ADDR[j] = addr;
            }
            j += 1;
        }
        LM_N = n + 1;
        n
    }
}
pub fn stub_mem_index(_this: &MemArray, index: u16) -> &Word {
    let j = lm_slot(index);
    unsafe { &(*std::ptr::addr_of!(LM_VAL)).assume_init_ref()[j] }
}
pub fn stub_mem_index_mut(_this: &mut MemArray, index: u16) -> &mut Word {
    let j = lm_slot(index);
    unsafe { &mut (*std::ptr::addr_of_mut!(LM_VAL)).assume_init_mut()[j] }
}

/// The memory object handed to the simulator. Under Kani it is never indexed (S-mem); the cell
/// contents are drawn here so that the `any()` stream is the same in a native replay.
pub fn sym_mem() -> MemArray {
    let mut j = 0;
    while j < LM_K {
        let w = any_word();
        unsafe { (*std::ptr::addr_of_mut!(LM_VAL)).assume_init_mut()[j] = w; }
        j += 1;
    }
    unsafe {
        LM_N = 0;
        LM_EXHAUSTED = false;
    }
    #[cfg(not(kani))]
    bound_reset();
    let layout = std::alloc::Layout::new::<[Word; 1 << 16]>();
    #[cfg(kani)]
    let p = unsafe { std::alloc::alloc(layout) };
    #[cfg(not(kani))]
    let p = unsafe { std::alloc::alloc_zeroed(layout) };
    assert!(!p.is_null());
    let b: Box<[Word; 1 << 16]> = unsafe { Box::from_raw(p as *mut [Word; 1 << 16]) };
    MemArray::verif_from_box(b)
}
pub fn assert_mem_ok() {
    unsafe { assert!(!LM_EXHAUSTED, "harness bound: more than LM_K distinct memory addresses touched in one step"); }
}

pub fn any_script() -> DevScript {
    let pk: u8 = nd::any();
    nd::assume(pk < 3);
    let poll = match pk {
        0 => PollAns::None,
        1 => {
            let vect: u8 = nd::any();
            let prio: u8 = nd::any();
            // vectors x00-x02 of the interrupt table are the exception entries; devices raising
            // them is outside the claim (DESIGN.md section 3, C08)
            nd::assume(vect >= 3);
            PollAns::Vect { vect, prio }
        }
        _ => PollAns::External,
    };
    let mut read_ans = [None; MAX_READS];
    let mut j = 0;
    while j < MAX_READS {
        let some: bool = nd::any();
        let v: u16 = nd::any();
        read_ans[j] = if some { Some(v) } else { None };
        j += 1;
    }
    let mut write_ans = [false; MAX_WRITES];
    let mut j = 0;
    while j < MAX_WRITES {
        write_ans[j] = nd::any();
        j += 1;
    }
    DevScript { poll, read_ans, write_ans }
}

pub struct Cfg {
    pub strict: Option<bool>,
    pub real_traps: Option<bool>,
    pub ignore_priv: Option<bool>,
    pub debug_frames: bool,
    /// number of symbolic alloca entries (0..=2)
    pub alloca: usize,
    /// allow a pending interrupt / external interrupt
    pub interrupts: bool,
}

fn pick(o: Option<bool>) -> bool {
    match o {
        Some(b) => b,
        None => nd::any(),
    }
}

/// Builds the arbitrary machine state and installs the script.
pub fn any_sim(cfg: &Cfg) -> (Simulator, DevScript) {
    let flags = SimFlags {
        strict: pick(cfg.strict),
        use_real_traps: pick(cfg.real_traps),
        machine_init: Default::default(),
        debug_frames: cfg.debug_frames,
        ignore_privilege: pick(cfg.ignore_priv),
    };
    let mem = sym_mem();
    let regs = RegFile::verif_from_words([
        any_word(), any_word(), any_word(), any_word(), any_word(), any_word(), any_word(), any_word(),
    ]);
    let pc: u16 = nd::any();
    let psr: u16 = nd::any();
    let ssp = any_word();
    let depth: u64 = nd::any();
    // a frame counter near 2^64 needs 2^64 executed calls (one step pushes at most two frames)
    nd::assume(depth < u64::MAX - 4);
    let irun: u64 = nd::any();
    let prefetch: bool = nd::any();
    let alloca: Box<[(u16, u16)]> = match cfg.alloca {
        0 => Box::new([]),
        1 => {
            let (s, l): (u16, u16) = (nd::any(), nd::any());
            nd::assume(l >= 1 && (s as u32 + l as u32) <= 0x10000);
            Box::new([(s, l)])
        }
        _ => {
            let (s, l): (u16, u16) = (nd::any(), nd::any());
            let (s2, l2): (u16, u16) = (nd::any(), nd::any());
            nd::assume(l >= 1 && (s as u32 + l as u32) <= 0x10000);
            nd::assume(l2 >= 1 && (s2 as u32 + l2 as u32) <= 0x10000);
            nd::assume(s as u32 + l as u32 <= s2 as u32); // sorted, disjoint (load_obj_file's invariant)
            Box::new([(s, l), (s2, l2)])
        }
    };
    let mut script = any_script();
    if !cfg.interrupts {
        nd::assume(matches!(script.poll, PollAns::None));
    }
    unsafe {
        SH.script = script;
        SH.nread = 0;
        SH.nwrite = 0;
        SH.npoll = 0;
        SH.ncalls = 0;
        SH.nobs = 0;
        SH.overflow = false;
    }
    let fs = FrameStack::verif_new_empty(cfg.debug_frames, depth);
    let sim = Simulator::verif_from_parts(flags, mem, regs, pc, psr, ssp, fs, alloca, irun, prefetch, make_devices());
    (sim, script)
}

pub const REGS: [Reg; 8] = [Reg::R0, Reg::R1, Reg::R2, Reg::R3, Reg::R4, Reg::R5, Reg::R6, Reg::R7];

pub fn model_of<'a>(sim: &'a mut Simulator, script: DevScript) -> Model<'a> {
    let flags = ModelFlags {
        strict: sim.flags.strict,
        real_traps: sim.flags.use_real_traps,
        ignore_priv: sim.flags.ignore_privilege,
    };
    let mut regs = [Word::new_init(0); 8];
    let mut j = 0;
    while j < 8 {
        regs[j] = sim.reg_file[REGS[j]];
        j += 1;
    }
    Model {
        flags,
        script,
        regs,
        pc: sim.pc,
        psr: sim.psr().get(),
        ssp: sim.verif_saved_sp(),
        depth: sim.frame_stack.len(),
        irun: sim.instructions_run,
        prefetch: sim.verif_prefetch(),
        eff: [(0, Word::new_init(0)); MAX_EFF],
        neff: 0,
        calls: [NOCALL; MAX_CALLS],
        ncalls: 0,
        obs: [(0, 0); MAX_OBS],
        nobs: 0,
        nread: 0,
        nwrite: 0,
        frame_push: None,
        frame_pop: false,
        touched: [0; 6],
        ntouched: 0,
        decoded: None,
        fetched: None,
        all_init: false,
        halted: false,
        iregs: false,
        mcr: false,
        sim,
    }
}

pub fn err_code(r: &Result<(), SimErr>) -> u8 {
    match r {
        Ok(()) => R_OK,
        Err(SimErr::IllegalOpcode) => E_ILLEGAL,
        Err(SimErr::InvalidInstrFormat) => E_INVALID,
        Err(SimErr::PrivilegeViolation) => E_PRIV,
        Err(SimErr::AccessViolation) => E_ACV,
        Err(SimErr::Interrupt(_)) => E_INT,
        Err(SimErr::StrictRegSetUninit)
        | Err(SimErr::StrictMemSetUninit)
        | Err(SimErr::StrictIOSetUninit)
        | Err(SimErr::StrictJmpAddrUninit)
        | Err(SimErr::StrictSRAddrUninit)
        | Err(SimErr::StrictMemAddrUninit)
        | Err(SimErr::StrictPCCurrUninit)
        | Err(SimErr::StrictPCNextUninit)
        | Err(SimErr::StrictPSRSetUninit) => E_STRICT,
        Err(_) => E_OTHER,
    }
}

/// What the model predicted, detached from the borrow of the simulator.
pub struct Exp {
    pub code: u8,
    pub regs: [Word; 8],
    pub pc: u16,
    pub psr: u16,
    pub ssp: Word,
    pub depth: u64,
    pub irun: u64,
    pub prefetch: bool,
    pub eff: [(u16, Word); MAX_EFF],
    pub neff: usize,
    pub calls: [Call; MAX_CALLS],
    pub ncalls: usize,
    pub obs: [(u16, u8); MAX_OBS],
    pub nobs: usize,
    pub frame_push: Option<(u16, u16, u8)>,
    pub frame_pop: bool,
    pub touched: [u16; 6],
    pub ntouched: usize,
    pub decoded: Option<crate::spec::instr::SI>,
    pub fetched: Option<u16>,
    pub halted: bool,
    pub mcr: bool,
}

pub fn predict(sim: &mut Simulator, script: DevScript) -> Exp {
    predict_with(sim, script, None, false)
}
/// `strict_override`: run the model with this strictness instead of the simulator's flag (C14).
/// `all_init`: every pre-state memory cell the model reads is assumed fully initialised.
pub fn predict_with(sim: &mut Simulator, script: DevScript, strict_override: Option<bool>, all_init: bool) -> Exp {
    predict_full(sim, script, strict_override, all_init, false)
}
/// `iregs`: the default internal-register mappings (PSR xFFFC, MCR xFFFE) are installed.
pub fn predict_full(sim: &mut Simulator, script: DevScript, strict_override: Option<bool>, all_init: bool, iregs: bool) -> Exp {
    predict_rt(sim, script, strict_override, all_init, iregs, None)
}
/// `rt_override`: run the model with this `use_real_traps` instead of the simulator's flag (C12).
pub fn predict_rt(sim: &mut Simulator, script: DevScript, strict_override: Option<bool>, all_init: bool, iregs: bool, rt_override: Option<bool>) -> Exp {
    let mcr0 = sim.mcr().load(std::sync::atomic::Ordering::Relaxed);
    let mut m = model_of(sim, script);
    if let Some(rt) = rt_override {
        m.flags.real_traps = rt;
    }
    m.iregs = iregs;
    m.mcr = mcr0;
    if let Some(s) = strict_override {
        m.flags.strict = s;
    }
    m.all_init = all_init;
    let code = m.step();
    Exp {
        code,
        regs: m.regs,
        pc: m.pc,
        psr: m.psr,
        ssp: m.ssp,
        depth: m.depth,
        irun: m.irun,
        prefetch: m.prefetch,
        eff: m.eff,
        neff: m.neff,
        calls: m.calls,
        ncalls: m.ncalls,
        obs: m.obs,
        nobs: m.nobs,
        frame_push: m.frame_push,
        frame_pop: m.frame_pop,
        touched: m.touched,
        ntouched: m.ntouched,
        decoded: m.decoded,
        fetched: m.fetched,
        halted: m.halted,
        mcr: m.mcr,
    }
}

impl Exp {
    pub fn final_mem(&self, a: u16, before: Word) -> Word {
        let mut v = before;
        let mut j = 0;
        while j < MAX_EFF {
            if j < self.neff && self.eff[j].0 == a {
                v = self.eff[j].1;
            }
            j += 1;
        }
        v
    }
    /// OR of the predicted observer flags at `a`
    pub fn obs_at(&self, a: u16) -> u8 {
        let mut f = 0;
        let mut j = 0;
        while j < MAX_OBS {
            if j < self.nobs && self.obs[j].0 == a {
                f |= self.obs[j].1;
            }
            j += 1;
        }
        f
    }
}

#[cfg(not(kani))]
thread_local! {
    static BOUND: std::cell::RefCell<std::collections::HashSet<u16>> = std::cell::RefCell::new(Default::default());
}
#[cfg(not(kani))]
pub fn bound_reset() {
    BOUND.with(|b| b.borrow_mut().clear());
}
/// `sim.mem[a] == w`: an assumption under Kani. In a native replay the first binding of a cell
/// assigns it (the zeroed native memory takes the solver's value); a later binding of the same
/// cell is checked like an assumption.
pub fn bind_mem(sim: &mut Simulator, a: u16, w: Word) {
    #[cfg(kani)]
    {
        kani::assume(sim.mem[a] == w);
    }
    #[cfg(not(kani))]
    {
        let first = BOUND.with(|b| b.borrow_mut().insert(a));
        if first {
            sim.mem[a] = w;
        } else {
            nd::assume(sim.mem[a] == w);
        }
    }
}
/// A harness-chosen store into the pre-state memory.
pub fn store_mem(sim: &mut Simulator, a: u16, w: Word) {
    sim.mem[a] = w;
    #[cfg(not(kani))]
    BOUND.with(|b| {
        b.borrow_mut().insert(a);
    });
}
/// Reads a pre-state memory cell, pinning it to recorded values (see `Model::base`).
pub fn pin_mem(sim: &mut Simulator, a: u16) -> Word {
    let w = any_word();
    bind_mem(sim, a, w);
    w
}

/// Observed observer flags at `a` after the real step.
pub fn observed_at(sim: &Simulator, a: u16) -> u8 {
    #[cfg(kani)]
    {
        let mut f = 0;
        let mut j = 0;
        unsafe {
            while j < MAX_OBS {
                if j < SH.nobs && SH.obs[j].0 == a {
                    f |= SH.obs[j].1;
                }
                j += 1;
            }
        }
        f
    }
    #[cfg(not(kani))]
    {
        set_flags(sim.observer.get_mem_accesses(a))
    }
}

/// Architectural state comparison (C08 core).
pub fn assert_arch(sim: &Simulator, e: &Exp, got: u8) {
    #[cfg(not(kani))]
    {
        if std::env::var("REPLAY_DEBUG").is_ok() {
            eprintln!("got={} exp={} fetched={:x?} decoded={:?}", got, e.code, e.fetched, e.decoded);
            for j in 0..8 { eprintln!("  R{}: real={:?} model={:?}", j, sim.reg_file[REGS[j]], e.regs[j]); }
            eprintln!("  pc real={:04x} model={:04x}  psr real={:04x} model={:04x}", sim.pc, e.pc, sim.psr().get(), e.psr);
            eprintln!("  ssp real={:?} model={:?} prefetch real={} model={} irun {} {}", sim.verif_saved_sp(), e.ssp, sim.verif_prefetch(), e.prefetch, sim.instructions_run, e.irun);
            eprintln!("  eff={:x?}", &e.eff[..e.neff]);
            unsafe { eprintln!("  calls real={:x?}\n        model={:x?}", &SH.calls[..SH.ncalls], &e.calls[..e.ncalls]); }
        }
    }
    assert!(got == e.code, "step result kind differs from the ISA model");
    let mut j = 0;
    while j < 8 {
        assert!(sim.reg_file[REGS[j]] == e.regs[j], "register differs from the ISA model");
        j += 1;
    }
    assert!(sim.pc == e.pc, "PC differs from the ISA model");
    assert!(sim.psr().get() == e.psr, "PSR differs from the ISA model");
    assert!(sim.verif_saved_sp() == e.ssp, "saved SP differs from the ISA model");
    assert!(sim.verif_prefetch() == e.prefetch, "prefetch flag (faulting-instruction address) differs from the model");
    assert!(sim.instructions_run == e.irun, "instruction counter differs from the model");
}

/// Device call sequence comparison.
pub fn assert_calls(e: &Exp) {
    unsafe {
        assert!(!SH.overflow, "more device calls / observer entries than the model allows");
        assert!(SH.ncalls == e.ncalls, "number of device calls differs from the ISA model");
        let mut j = 0;
        while j < MAX_CALLS {
            if j < e.ncalls {
                assert!(SH.calls[j] == e.calls[j], "device call (kind, address, data) differs from the ISA model");
            }
            j += 1;
        }
    }
}

pub fn assert_obs_bounded() {
    unsafe { assert!(!SH.overflow, "more device calls / observer entries than the model allows"); }
}
/// every device read/write logged during the step satisfies `pred(addr)`
pub fn assert_device_addrs(pred: impl Fn(u16) -> bool) {
    unsafe {
        let mut j = 0;
        while j < MAX_CALLS {
            if j < SH.ncalls && SH.calls[j].kind != CALL_POLL {
                assert!(pred(SH.calls[j].addr), "device reached at an address the step must not touch");
            }
            j += 1;
        }
    }
}
pub fn polls() -> usize {
    unsafe { SH.npoll }
}
pub fn device_io_calls() -> usize {
    unsafe {
        let mut n = 0;
        let mut j = 0;
        while j < MAX_CALLS {
            if j < SH.ncalls && SH.calls[j].kind != CALL_POLL {
                n += 1;
            }
            j += 1;
        }
        n
    }
}
/// all lazily materialised cells hold fully initialised words (no-op natively: cells are bound)
pub fn lm_assume_all_init() {
    #[cfg(kani)]
    unsafe {
        let mut j = 0;
        while j < LM_K {
            kani::assume((*std::ptr::addr_of!(LM_VAL)).assume_init_ref()[j].is_init());
            j += 1;
        }
    }
}
pub fn finish(sim: Simulator, r: Result<(), SimErr>) {
    std::mem::forget(r);
    std::mem::forget(sim);
}
