//! C14 - strict mode only adds uninitialised-value errors.
use crate::kfam::{run, Opts, BASE};
use crate::c08::{G_ALU, G_MEM, G_SYS, CLASS_IRQ};
const O: Opts = Opts { strict: Some(true), alloca: 2, a_c14: true, ..BASE };
const I: Opts = Opts { strict: Some(true), alloca: 2, all_init: true, a_no_strict_err: true, ..BASE };
crate::kstep_harnesses! {
    c14_same_all = run(Opts { class: crate::c08::CLASS_ANY, ..O });
    c14_init_all = run(Opts { class: crate::c08::CLASS_ANY, ..I });
    c14_same_alu = run(Opts { class: G_ALU, ..O });
    c14_same_mem = run(Opts { class: G_MEM, ..O });
    c14_same_sys = run(Opts { class: G_SYS, ..O });
    c14_same_irq = run(Opts { class: CLASS_IRQ, ..O });
    c14_init_alu = run(Opts { class: G_ALU, ..I });
    c14_init_mem = run(Opts { class: G_MEM, ..I });
    c14_init_sys = run(Opts { class: G_SYS, ..I });
    c14_init_irq = run(Opts { class: CLASS_IRQ, ..I });
}
