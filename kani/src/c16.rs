//! C16 - no machine state makes the simulator panic: one step from an arbitrary state with every
//! flag symbolic, then `prefetch_pc()`. The assertions are the panics rustc/Kani encode (overflow,
//! bounds, unwrap/expect, unreachable!, explicit panics); one inductive step covers any number of steps.
use crate::kfam::{run, Opts, BASE};
use crate::c08::{G_ALU, G_MEM, G_SYS, CLASS_IRQ, CLASS_IOFETCH};
const O: Opts = Opts { strict: None, alloca: 2, prefetch_pc: true, ..BASE };
crate::kstep_harnesses! {
    c16_any_all = run(Opts { class: crate::c08::CLASS_ANY, ..O });
    c16_any_alu = run(Opts { class: G_ALU, ..O });
    c16_any_mem = run(Opts { class: G_MEM, ..O });
    c16_any_sys = run(Opts { class: G_SYS, ..O });
    c16_any_irq = run(Opts { class: CLASS_IRQ, ..O });
    c16_any_iofetch = run(Opts { class: CLASS_IOFETCH, ..O });
}
