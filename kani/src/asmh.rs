//! Helpers for the assembler / linker / object-format harnesses: small object files and ASTs of
//! concrete shape with symbolic scalars (addresses, words, flags).
use crate::nd;
use lc3_ensemble::asm::{ObjectFile, SymbolTable};
use lc3_ensemble::ast::asm::{AsmInstr, Directive, Stmt, StmtKind};
use lc3_ensemble::ast::{Label, Offset, PCOffset, Reg};

pub fn any_opt_word() -> Option<u16> {
    let some: bool = nd::any();
    let v: u16 = nd::any();
    if some { Some(v) } else { None }
}

/// label entry for `SymbolTable::verif_from_parts`
pub fn lbl(name: &str, addr: u16, src_start: usize, external: bool) -> (String, u16, usize, bool) {
    (String::from(name), addr, src_start, external)
}

pub fn stmt(labels: Vec<Label>, nucleus: StmtKind, span: std::ops::Range<usize>) -> Stmt {
    Stmt { labels, nucleus, span }
}
pub fn orig(addr: u16, span: std::ops::Range<usize>) -> Stmt {
    stmt(vec![], StmtKind::Directive(Directive::Orig(Offset::new_trunc(addr))), span)
}
pub fn end(span: std::ops::Range<usize>) -> Stmt {
    stmt(vec![], StmtKind::Directive(Directive::End), span)
}
pub fn fill_num(v: u16, span: std::ops::Range<usize>) -> Stmt {
    stmt(vec![], StmtKind::Directive(Directive::Fill(PCOffset::Offset(Offset::new_trunc(v)))), span)
}
pub fn fill_label(name: &str, at: usize, span: std::ops::Range<usize>) -> Stmt {
    let l = Label::new(String::from(name), at..at + name.len());
    stmt(vec![], StmtKind::Directive(Directive::Fill(PCOffset::Label(l))), span)
}
pub fn external(name: &str, at: usize, span: std::ops::Range<usize>) -> Stmt {
    let l = Label::new(String::from(name), at..at + name.len());
    stmt(vec![], StmtKind::Directive(Directive::External(l)), span)
}
pub fn blkw(n: u16, span: std::ops::Range<usize>) -> Stmt {
    stmt(vec![], StmtKind::Directive(Directive::Blkw(Offset::new_trunc(n))), span)
}
pub fn with_label(mut s: Stmt, name: &str, at: usize) -> Stmt {
    s.labels.push(Label::new(String::from(name), at..at + name.len()));
    s
}
pub fn halt(span: std::ops::Range<usize>) -> Stmt {
    stmt(vec![], StmtKind::Instr(AsmInstr::HALT), span)
}

/// S-upper: `str::to_uppercase` walks the Unicode case-mapping tables (a ~1500-entry constant array,
/// binary-searched per character), which CBMC symbolically executes at a few loop iterations per
/// second even for concrete text. For ASCII input it is exactly `to_ascii_uppercase`; label names in
/// the harnesses are ASCII.
pub fn stub_to_uppercase_ascii(s: &str) -> String {
    let b = s.as_bytes();
    let mut out: Vec<u8> = Vec::with_capacity(b.len());
    let mut j = 0;
    while j < b.len() {
        out.push(b[j].to_ascii_uppercase());
        j += 1;
    }
    unsafe { String::from_utf8_unchecked(out) }
}

/// The stub set used by every harness that touches `HashMap<String, _>` / label names.
#[macro_export]
macro_rules! asm_harnesses {
    ($( #[unwind($u:literal)] fn $name:ident() $body:block )*) => {
        $crate::harnesses! {
            $(
                #[kani::unwind($u)]
                #[kani::stub(std::hash::RandomState::new, crate::kstep::stub_random_state)]
                #[kani::stub(<std::hash::DefaultHasher as std::hash::Hasher>::write, crate::kstep::stub_hasher_write)]
                #[kani::stub(<std::hash::DefaultHasher as std::hash::Hasher>::finish, crate::kstep::stub_hasher_finish)]
                #[kani::stub(alloc::fmt::format, crate::c05::stub_format)]
                #[kani::stub(str::to_uppercase, crate::asmh::stub_to_uppercase_ascii)]
                fn $name() $body
            )*
        }
    };
}
