//! C35 – bounded offsets accept exactly the representable values.
//! Functions encoded: `Offset::<i16,N>::{new,new_trunc,get}`, `Offset::<u16,N>::{new,new_trunc,get}`,
//! `OffsetBacking::truncate` for N = 1..=16. Full width: the input is an arbitrary i16 / u16.
use crate::nd;
use lc3_ensemble::ast::{Offset, OffsetNewErr};

/// independent model: representable in N-bit two's complement
fn fits_signed(v: i16, n: u32) -> bool {
    let v = v as i32;
    let half = 1i32 << (n - 1);
    -half <= v && v < half
}
fn fits_unsigned(v: u16, n: u32) -> bool {
    (v as u32) < (1u32 << n)
}
/// independent model: sign extension by mask + conditional subtract (no shifts of the value)
fn sext_model(v: i16, n: u32) -> i16 {
    let low = (v as u16 as u32) & ((1u32 << n) - 1);
    if low >= (1u32 << (n - 1)) {
        (low as i32 - (1i32 << n)) as i16
    } else {
        low as i16
    }
}
fn zext_model(v: u16, n: u32) -> u16 {
    ((v as u32) % (1u32 << n)) as u16
}

macro_rules! for_all_n {
    ($m:ident, $v:expr) => {
        $m!(1, $v); $m!(2, $v); $m!(3, $v); $m!(4, $v); $m!(5, $v); $m!(6, $v); $m!(7, $v); $m!(8, $v);
        $m!(9, $v); $m!(10, $v); $m!(11, $v); $m!(12, $v); $m!(13, $v); $m!(14, $v); $m!(15, $v); $m!(16, $v);
    };
}

macro_rules! new_i16 {
    ($n:literal, $v:expr) => {{
        let r = Offset::<i16, $n>::new($v);
        assert!(r.is_ok() == fits_signed($v, $n));
        match r {
            Ok(o) => assert!(o.get() == $v),
            Err(e) => assert!(e == OffsetNewErr::CannotFitSigned($n)),
        }
    }};
}
macro_rules! new_u16 {
    ($n:literal, $v:expr) => {{
        let r = Offset::<u16, $n>::new($v);
        assert!(r.is_ok() == fits_unsigned($v, $n));
        match r {
            Ok(o) => assert!(o.get() == $v),
            Err(e) => assert!(e == OffsetNewErr::CannotFitUnsigned($n)),
        }
    }};
}
macro_rules! trunc_i16 {
    ($n:literal, $v:expr) => {{
        let o = Offset::<i16, $n>::new_trunc($v);
        assert!(o.get() == sext_model($v, $n));
        // a truncated value is always representable and re-creates itself
        assert!(Offset::<i16, $n>::new(o.get()) == Ok(o));
    }};
}
macro_rules! trunc_u16 {
    ($n:literal, $v:expr) => {{
        let o = Offset::<u16, $n>::new_trunc($v);
        assert!(o.get() == zext_model($v, $n));
        assert!(Offset::<u16, $n>::new(o.get()) == Ok(o));
    }};
}

crate::harnesses! {
    fn c35_new_i16() {
        let v: i16 = nd::any();
        for_all_n!(new_i16, v);
        crate::nd_cover!(Offset::<i16, 5>::new(v).is_err(), "imm5 rejects");
        crate::nd_cover!(Offset::<i16, 5>::new(v).is_ok(), "imm5 accepts");
    }
    fn c35_new_u16() {
        let v: u16 = nd::any();
        for_all_n!(new_u16, v);
        crate::nd_cover!(Offset::<u16, 8>::new(v).is_err(), "vect8 rejects");
        crate::nd_cover!(Offset::<u16, 8>::new(v).is_ok(), "vect8 accepts");
    }
    fn c35_trunc_i16() {
        let v: i16 = nd::any();
        for_all_n!(trunc_i16, v);
        crate::nd_cover!(Offset::<i16, 9>::new_trunc(v).get() != v, "off9 truncation changes value");
    }
    fn c35_trunc_u16() {
        let v: u16 = nd::any();
        for_all_n!(trunc_u16, v);
        crate::nd_cover!(Offset::<u16, 8>::new_trunc(v).get() != v, "vect8 truncation changes value");
    }
}
