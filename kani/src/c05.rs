//! C05 (token -> operand half) - a numeric/register token is accepted as an operand of an N-bit
//! field exactly when its value fits the field, with the documented signedness rule.
//! Real code: `parse::simple::TokenParse` impls for `Offset<i16,N>`, `Offset<u16,N>`, `Reg`,
//! `IntLiteral`, `Either<L,R>`; `Offset::new`. The lexeme -> token half runs the logos DFA on
//! symbolic text and is out of reach (DESIGN.md section 9); it is not claimed.
use crate::nd;
use lc3_ensemble::ast::{Offset, Reg};
use lc3_ensemble::parse::lex::Token;
use lc3_ensemble::parse::simple::{Either, IntLiteral, TokenParse};

/// S-fmt: error messages built with `format!` are irrelevant to acceptance
pub fn stub_format(_args: std::fmt::Arguments<'_>) -> String {
    String::new()
}

fn any_num_token() -> (Token, i32) {
    let signed: bool = nd::any();
    if signed {
        let v: i16 = nd::any();
        (Token::Signed(v), v as i32)
    } else {
        let v: u16 = nd::any();
        (Token::Unsigned(v), v as i32)
    }
}
fn parse_tok<T: TokenParse>(t: &Token) -> Option<T> {
    match T::match_(Some(t), 3..7) {
        Ok(im) => match T::convert(im, 3..7) {
            Ok(v) => Some(v),
            Err(e) => { std::mem::forget(e); None }
        },
        Err(e) => { std::mem::forget(e); None }
    }
}
macro_rules! signed_field {
    ($n:literal, $t:expr, $v:expr) => {{
        let r: Option<Offset<i16, $n>> = parse_tok($t);
        let half = 1i32 << ($n - 1);
        let fits = -half <= $v && $v < half;
        assert!(r.is_some() == fits, "signed field accepts exactly the values that fit");
        if let Some(o) = r { assert!(o.get() as i32 == $v, "operand value differs from the token value"); }
    }};
}
macro_rules! unsigned_field {
    ($n:literal, $t:expr, $v:expr) => {{
        let r: Option<Offset<u16, $n>> = parse_tok($t);
        let fits = 0 <= $v && $v < (1i32 << $n);
        assert!(r.is_some() == fits, "unsigned field accepts exactly the values that fit");
        if let Some(o) = r { assert!(o.get() as i32 == $v, "operand value differs from the token value"); }
    }};
}

crate::harnesses! {
    #[kani::unwind(2)]
    fn c05_signed_fields() {
        let (t, v) = any_num_token();
        signed_field!(5, &t, v);
        signed_field!(6, &t, v);
        signed_field!(9, &t, v);
        signed_field!(11, &t, v);
        crate::nd_cover!(v == 15, "imm5 max");
        crate::nd_cover!(v == -1025, "offset11 min - 1");
        std::mem::forget(t);
    }
    #[kani::unwind(2)]
    fn c05_unsigned_fields() {
        let (t, v) = any_num_token();
        unsigned_field!(8, &t, v);
        unsigned_field!(16, &t, v);
        // .fill accepts either signedness, as the 16-bit pattern
        let f: Option<IntLiteral> = parse_tok(&t);
        assert!(matches!(f, Some(IntLiteral(x)) if x == (v as u16)), ".fill literal is the 16-bit pattern of the token");
        crate::nd_cover!(v == 256, "trapvect8 max + 1");
        crate::nd_cover!(v == -1, "negative token");
        std::mem::forget(t);
    }
    #[kani::unwind(2)]
    #[kani::stub(alloc::fmt::format, stub_format)]
    fn c05_reg_and_either() {
        let n: u8 = nd::any();
        let t = Token::Reg(n);
        let r: Option<Reg> = parse_tok(&t);
        assert!(r.is_some() == (n < 8), "register token accepted iff 0..=7");
        if let Some(reg) = r { assert!(reg.reg_no() == n, "register number"); }
        // imm5-or-register operand (ADD/AND)
        let e: Option<Either<Offset<i16, 5>, Reg>> = parse_tok(&t);
        match e {
            Some(Either::Right(reg)) => assert!(n < 8 && reg.reg_no() == n, "register operand"),
            Some(Either::Left(_)) => assert!(false, "register token parsed as immediate"),
            None => assert!(n >= 8, "valid register rejected as ADD/AND operand"),
        }
        let (nt, v) = any_num_token();
        let e2: Option<Either<Offset<i16, 5>, Reg>> = parse_tok(&nt);
        match e2 {
            Some(Either::Left(o)) => assert!(-16 <= v && v < 16 && o.get() as i32 == v, "imm5 operand"),
            Some(Either::Right(_)) => assert!(false, "numeric token parsed as register"),
            None => assert!(!(-16 <= v && v < 16), "fitting imm5 rejected"),
        }
        // non-numeric tokens are never operands
        let c = Token::Comma;
        let x: Option<Offset<i16, 9>> = parse_tok(&c);
        assert!(x.is_none(), "comma accepted as a number");
        std::mem::forget(t);
        std::mem::forget(nt);
    }
}
