//! C07 (statement level) - every word disassembles to a statement that reassembles to the same word.
//! Real code: `ast::asm::{disassemble_line, try_disassemble_line}`, `SimInstr::decode`,
//! `AsmInstr::into_sim_instr`, `replace_pc_offset` (numeric arm), `SimInstr::encode`, `SymbolTable::new(&[])`.
//! The text half (Display -> lexer -> parser) is outside the reach of the solver and not claimed.
use crate::nd;
use crate::spec::instr::{self, SI};
use lc3_ensemble::asm::SymbolTable;
use lc3_ensemble::ast::asm::{disassemble_line, AsmInstr, Directive, StmtKind};
use lc3_ensemble::ast::PCOffset;

/// S-upper: `str::to_uppercase` is only reachable through the label arm of `replace_pc_offset`,
/// which is infeasible for disassembled statements (numeric offsets only).
pub fn stub_to_uppercase(_s: &str) -> String {
    String::new()
}

crate::harnesses! {
    #[kani::unwind(7)]
    #[kani::stub(std::hash::RandomState::new, crate::kstep::stub_random_state)]
    #[kani::stub(<std::hash::DefaultHasher as std::hash::Hasher>::write, crate::kstep::stub_hasher_write)]
    #[kani::stub(<std::hash::DefaultHasher as std::hash::Hasher>::finish, crate::kstep::stub_hasher_finish)]
    #[kani::stub(str::to_uppercase, stub_to_uppercase)]
    fn c07_disassemble_all_words() {
        let w: u16 = nd::any();
        let pc: u16 = nd::any();
        let stmt = disassemble_line(w);
        let canon = instr::decode(w);
        assert!(stmt.labels.is_empty(), "disassembled statement has labels");
        let is_fill = matches!(stmt.nucleus, StmtKind::Directive(_));
        assert!(is_fill == (w < 0x0200 || canon.is_err()), ".fill iff the word is below x0200 or not a canonical instruction");
        crate::nd_cover!(is_fill && w >= 0x0200, "non-instruction word");
        crate::nd_cover!(!is_fill, "instruction word");
        match stmt.nucleus {
            StmtKind::Directive(Directive::Fill(PCOffset::Offset(o))) => {
                assert!(o.get() == w, ".fill operand differs from the word");
            }
            StmtKind::Directive(d) => {
                std::mem::forget(d);
                assert!(false, "disassembly produced a directive other than .fill <number>");
            }
            StmtKind::Instr(ai) => {
                // aliases are produced by name
                let named_ok = match canon {
                    Ok(SI::Jmp { br: 7 }) => matches!(ai, AsmInstr::RET),
                    Ok(SI::Jmp { .. }) => matches!(ai, AsmInstr::JMP(_)),
                    Ok(SI::Trap { vect: 0x20 }) => matches!(ai, AsmInstr::GETC),
                    Ok(SI::Trap { vect: 0x21 }) => matches!(ai, AsmInstr::PUTC | AsmInstr::OUT),
                    Ok(SI::Trap { vect: 0x22 }) => matches!(ai, AsmInstr::PUTS),
                    Ok(SI::Trap { vect: 0x23 }) => matches!(ai, AsmInstr::IN),
                    Ok(SI::Trap { vect: 0x24 }) => matches!(ai, AsmInstr::PUTSP),
                    Ok(SI::Trap { vect: 0x25 }) => matches!(ai, AsmInstr::HALT),
                    Ok(SI::Trap { .. }) => matches!(ai, AsmInstr::TRAP(_)),
                    Ok(SI::Jsrr { .. }) => matches!(ai, AsmInstr::JSRR(_)),
                    Ok(SI::Jsr { .. }) => matches!(ai, AsmInstr::JSR(PCOffset::Offset(_))),
                    Ok(SI::Br { .. }) => matches!(ai, AsmInstr::BR(_, PCOffset::Offset(_))),
                    Ok(SI::Rti) => matches!(ai, AsmInstr::RTI),
                    _ => true,
                };
                assert!(named_ok, "alias / mnemonic of the disassembled statement is wrong");
                // reassemble (pass 2 of the assembler) at an arbitrary address
                let sym = SymbolTable::new(&[], None);
                let sym = match sym { Ok(s) => s, Err(e) => { std::mem::forget(e); assert!(false, "empty program rejected"); return; } };
                let r = ai.into_sim_instr(pc, &sym);
                match r {
                    Ok(si) => assert!(si.encode() == w, "reassembled word differs from the original word"),
                    Err(e) => { std::mem::forget(e); assert!(false, "disassembled statement does not reassemble"); }
                }
                std::mem::forget(sym);
            }
        }
    }
}
