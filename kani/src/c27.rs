//! C27 - frame stack tracks calls and returns. (a) depth counter, one step from an arbitrary depth.
use crate::kfam::{run, Opts, BASE};
use crate::c08::{G_ALU, G_MEM, G_SYS, CLASS_IRQ};
const O: Opts = Opts { a_depth: true, ..BASE };
crate::kstep_harnesses! {
    c27_frames_all = run(Opts { class: crate::c08::CLASS_ANY, debug_frames: true, ..O });
    c27_depth_all = run(Opts { class: crate::c08::CLASS_ANY, ..O });
    c27_depth_alu = run(Opts { class: G_ALU, ..O });
    c27_depth_sys = run(Opts { class: G_SYS, ..O });
    c27_depth_irq = run(Opts { class: CLASS_IRQ, ..O });
    c27_depth_mem = run(Opts { class: G_MEM, ..O });
}
