//! scratch probes (not registered)
use crate::kstep::*;
use crate::nd;
use crate::spec::isa::*;

macro_rules! probe_harness {
    ($($name:ident $body:block)*) => {
        crate::harnesses! {
            $(
                #[kani::unwind(10)]
                #[kani::stub(<lc3_ensemble::sim::device::DeviceHandler as lc3_ensemble::sim::device::ExternalDevice>::io_read, crate::kstep::stub_io_read)]
                #[kani::stub(<lc3_ensemble::sim::device::DeviceHandler as lc3_ensemble::sim::device::ExternalDevice>::io_write, crate::kstep::stub_io_write)]
                #[kani::stub(<lc3_ensemble::sim::device::DeviceHandler as lc3_ensemble::sim::device::ExternalDevice>::poll_interrupt, crate::kstep::stub_poll)]
                #[kani::stub(lc3_ensemble::sim::observer::AccessObserver::update_mem_accesses, crate::kstep::stub_update_mem_accesses)]
                #[kani::stub(std::hash::RandomState::new, crate::kstep::stub_random_state)]
                #[kani::stub(<std::hash::DefaultHasher as std::hash::Hasher>::write, crate::kstep::stub_hasher_write)]
                #[kani::stub(<std::hash::DefaultHasher as std::hash::Hasher>::finish, crate::kstep::stub_hasher_finish)]
                #[kani::stub(std::mem::swap, crate::kstep::stub_swap)]
                #[kani::stub(<lc3_ensemble::sim::mem::MemArray as std::ops::Index<u16>>::index, crate::kstep::stub_mem_index)]
                #[kani::stub(<lc3_ensemble::sim::mem::MemArray as std::ops::IndexMut<u16>>::index_mut, crate::kstep::stub_mem_index_mut)]
                fn $name() $body
            )*
        }
    };
}
fn cfg() -> Cfg { Cfg { strict: Some(false), real_traps: None, ignore_priv: None, debug_frames: false, alloca: 0, interrupts: false } }
probe_harness! {
    probe_build {
        let (sim, _script) = any_sim(&cfg());
        std::mem::forget(sim);
    }
    probe_model {
        let (mut sim, script) = any_sim(&cfg());
        let e = predict(&mut sim, script);
        assert!(e.code < 10);
        std::mem::forget(sim);
    }
    probe_real {
        let (mut sim, _script) = any_sim(&cfg());
        let r = sim.step_in();
        finish(sim, r);
    }
}
