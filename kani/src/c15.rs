//! C15 – initialisation tracking of words is sound.
//! Functions encoded: `Word::{add,sub,bitand,not,add_assign*,sub_assign*}` (all impls in sim/mem.rs),
//! `Word::{get,is_init,new_init}`; hooks `Word::verif_from_parts`, `Word::verif_init_mask`.
//! Self-composition at full width: two runs whose operands agree on their initialised bits.
use crate::nd;
use lc3_ensemble::sim::mem::Word;

fn w(d: u16, i: u16) -> Word {
    Word::verif_from_parts(d, i)
}
/// two data values that agree on the bits of `init`
fn pair(init: u16) -> (u16, u16) {
    let a: u16 = nd::any();
    let b: u16 = nd::any();
    nd::assume(a & init == b & init);
    (a, b)
}
/// soundness: every bit the result claims initialised is equal in both runs
fn sound(r1: Word, r2: Word) {
    let m1 = r1.verif_init_mask();
    let m2 = r2.verif_init_mask();
    assert!((r1.get() ^ r2.get()) & m1 == 0, "result bit reported initialised depends on uninitialised operand bits");
    assert!((r1.get() ^ r2.get()) & m2 == 0, "result bit reported initialised depends on uninitialised operand bits");
}

crate::harnesses! {
    fn c15_add() {
        let (i1, i2): (u16, u16) = (nd::any(), nd::any());
        let (a1, a2) = pair(i1);
        let (b1, b2) = pair(i2);
        let r1 = w(a1, i1) + w(b1, i2);
        let r2 = w(a2, i1) + w(b2, i2);
        sound(r1, r2);
        if i1 == 0xFFFF && i2 == 0xFFFF {
            assert!(r1.is_init() && r1.get() == a1.wrapping_add(b1), "ADD of initialised words");
        }
        let mut x = w(a1, i1); x += w(b1, i2);
        assert!(x == r1, "+= differs from +");
        crate::nd_cover!(i1 != 0xFFFF && i1 != 0 && r1.verif_init_mask() != 0, "partial operand, some result bits initialised");
        crate::nd_cover!(i1 == 0xFFFF && i2 == 0xFFFF, "fully initialised");
    }
    fn c15_sub() {
        let (i1, i2): (u16, u16) = (nd::any(), nd::any());
        let (a1, a2) = pair(i1);
        let (b1, b2) = pair(i2);
        let r1 = w(a1, i1) - w(b1, i2);
        let r2 = w(a2, i1) - w(b2, i2);
        sound(r1, r2);
        if i1 == 0xFFFF && i2 == 0xFFFF {
            assert!(r1.is_init() && r1.get() == a1.wrapping_sub(b1), "SUB of initialised words");
        }
        let mut x = w(a1, i1); x -= w(b1, i2);
        assert!(x == r1, "-= differs from -");
        crate::nd_cover!(i1 != 0xFFFF && r1.verif_init_mask() != 0, "partial operand, some result bits initialised");
    }
    fn c15_and() {
        let (i1, i2): (u16, u16) = (nd::any(), nd::any());
        let (a1, a2) = pair(i1);
        let (b1, b2) = pair(i2);
        let r1 = w(a1, i1) & w(b1, i2);
        let r2 = w(a2, i1) & w(b2, i2);
        sound(r1, r2);
        if i1 == 0xFFFF && i2 == 0xFFFF {
            assert!(r1.is_init() && r1.get() == (a1 & b1), "AND of initialised words");
        }
        let mut x = w(a1, i1); x &= w(b1, i2);
        assert!(x == r1, "&= differs from &");
        crate::nd_cover!(i1 == 0 && r1.verif_init_mask() != 0, "AND with initialised zero bits initialises");
    }
    fn c15_not() {
        let i1: u16 = nd::any();
        let (a1, a2) = pair(i1);
        let r1 = !w(a1, i1);
        let r2 = !w(a2, i1);
        sound(r1, r2);
        if i1 == 0xFFFF {
            assert!(r1.is_init() && r1.get() == !a1, "NOT of an initialised word");
        }
        crate::nd_cover!(i1 != 0xFFFF && i1 != 0, "partial");
    }
    // the scalar forms used by the simulator (R6 -= 2, R6 += 2 etc.)
    fn c15_scalar_assign() {
        let i1: u16 = nd::any();
        let (a1, a2) = pair(i1);
        let k: u16 = nd::any();
        let (mut x1, mut x2) = (w(a1, i1), w(a2, i1));
        x1 += k; x2 += k;
        sound(x1, x2);
        if i1 == 0xFFFF { assert!(x1.is_init() && x1.get() == a1.wrapping_add(k), "+= u16"); }
        let (mut y1, mut y2) = (w(a1, i1), w(a2, i1));
        y1 -= k; y2 -= k;
        sound(y1, y2);
        if i1 == 0xFFFF { assert!(y1.is_init() && y1.get() == a1.wrapping_sub(k), "-= u16"); }
        let s: i16 = nd::any();
        let (mut z1, mut z2) = (w(a1, i1), w(a2, i1));
        z1 += s; z2 += s;
        sound(z1, z2);
        if i1 == 0xFFFF { assert!(z1.is_init() && z1.get() == a1.wrapping_add(s as u16), "+= i16"); }
        let (mut v1, mut v2) = (w(a1, i1), w(a2, i1));
        v1 -= s; v2 -= s;
        sound(v1, v2);
        if i1 == 0xFFFF { assert!(v1.is_init() && v1.get() == a1.wrapping_sub(s as u16), "-= i16"); }
    }
}
