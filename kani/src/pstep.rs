//! P-step family: short executions of CONCRETE code - the built-in OS trap routines, taken from
//! `gen/os_image.rs` (regenerated from /repo/src/os.asm on every run) - by the REAL simulator with
//! the REAL device hub, `BufferedKeyboard` and `BufferedDisplay`, on SYMBOLIC data (register contents,
//! queued bytes) and a SYMBOLIC lock-holding schedule.
//!
//! Along every path of the schedule tree the PC and the fetched words are concrete, so symbolic
//! execution follows one instruction arm per step (unlike the K-step family, which pays for all
//! sixteen). "Another thread holds the buffer lock during this instruction" is produced by really
//! holding the `RwLock` in the harness across the step; the decision is a fresh symbolic boolean at
//! every instruction that accesses the device (at the other instructions the lock is irrelevant).
//!
//! Memory: an associative store like S-mem (kstep.rs) but with 20 cells, preloaded with the words
//! the routine needs; every other cell is materialised on first access with arbitrary contents.
use crate::gen_os as os;
use crate::kstep::{any_word, REGS};
use crate::nd;
use lc3_ensemble::sim::device::{BufferedDisplay, BufferedKeyboard, DeviceHandler};
use lc3_ensemble::sim::frame::FrameStack;
use lc3_ensemble::sim::mem::{MemArray, RegFile, Word};
use lc3_ensemble::sim::{SimFlags, Simulator};
use std::collections::VecDeque;
use std::sync::{Arc, RwLock};

pub const PM_K: usize = 20;
pub static mut PM_ADDR: [u16; PM_K] = [0; PM_K];
/// plain typed storage (no `MaybeUninit` union): CBMC keeps each cell's fields as separate SSA
/// symbols, so a concrete word stored at a concrete address reads back as a constant
pub static mut PM_VAL: [Option<Word>; PM_K] = [None; PM_K];
pub static mut PM_N: usize = 0;
pub static mut PM_EXHAUSTED: bool = false;

/// Straight-line repetition instead of a loop: Kani has a single unwinding bound per harness, and a
/// 20-iteration bookkeeping loop would force that bound onto every loop and recursion of the real
/// code (e.g. the RwLock CAS loop and the drop glue of `Box<dyn Error>`).
macro_rules! unroll20 {
    ($j:ident => $body:block) => {
        unroll20!(@ $j $body 0 1 2 3 4 5 6 7 8 9 10 11 12 13 14 15 16 17 18 19)
    };
    (@ $j:ident $body:block $($i:literal)*) => {
        $( { let $j: usize = $i; $body } )*
    };
}

fn pm_slot(addr: u16) -> usize {
    unsafe {
        let mut found = PM_K;
        unroll20!(j => {
            if j < PM_N && PM_ADDR[j] == addr && found == PM_K {
                found = j;
            }
        });
        if found < PM_K {
            return found;
        }
        if PM_N >= PM_K {
            PM_EXHAUSTED = true;
            return PM_K - 1;
        }
        let n = PM_N;
        PM_ADDR[n] = addr;
        PM_N = n + 1;
        n
    }
}
pub fn stub_pmem_index(_this: &MemArray, index: u16) -> &Word {
    let j = pm_slot(index);
    unsafe { (*std::ptr::addr_of!(PM_VAL))[j].as_ref().unwrap() }
}
pub fn stub_pmem_index_mut(_this: &mut MemArray, index: u16) -> &mut Word {
    let j = pm_slot(index);
    unsafe { (*std::ptr::addr_of_mut!(PM_VAL))[j].as_mut().unwrap() }
}
fn pm_reset() {
    unroll20!(j => {
        // arbitrary contents for cells materialised later (drawn up front: same any() stream natively)
        let w = any_word();
        unsafe { (*std::ptr::addr_of_mut!(PM_VAL))[j] = Some(w); }
    });
    unsafe {
        PM_N = 0;
        PM_EXHAUSTED = false;
    }
}
use crate::gen_os::os_word;
fn load(sim: &mut Simulator, addr: u16, w: u16) {
    sim.mem[addr] = Word::new_init(w);
}

pub struct World {
    pub psr0: u16,
    pub sim: Simulator,
    pub kb: Arc<RwLock<VecDeque<u8>>>,
    pub ds: Arc<RwLock<Vec<u8>>>,
    pub regs0: [Word; 8],
}

/// A user-mode machine about to execute the word `user_word` at x3000, default flags, the real
/// devices attached, registers arbitrary (R6 = user stack pointer arbitrary).
pub fn world(user_word: u16, queue: VecDeque<u8>) -> World {
    world_psr(user_word, queue, 0x8002)
}
/// `psr0`: the (concrete) PSR of the calling user program
pub fn world_psr(user_word: u16, queue: VecDeque<u8>, psr0: u16) -> World {
    pm_reset();
    let layout = std::alloc::Layout::new::<[Word; 1 << 16]>();
    #[cfg(kani)]
    let p = unsafe { std::alloc::alloc(layout) };
    #[cfg(not(kani))]
    let p = unsafe { std::alloc::alloc_zeroed(layout) };
    let mem = MemArray::verif_from_box(unsafe { Box::from_raw(p as *mut [Word; 1 << 16]) });
    let regs0 = [any_word(), any_word(), any_word(), any_word(), any_word(), any_word(), any_word(), any_word()];
    let regs = RegFile::verif_from_words(regs0);
    let flags = SimFlags { strict: false, use_real_traps: false, machine_init: Default::default(), debug_frames: false, ignore_privilege: false };
    let kb = Arc::new(RwLock::new(queue));
    let ds = Arc::new(RwLock::new(Vec::new()));
    #[allow(unused_mut)]
    let mut dh = DeviceHandler::new();
    #[cfg(kani)]
    unsafe {
        HUB_KB = Some(BufferedKeyboard::new(Arc::clone(&kb)));
        HUB_DS = Some(BufferedDisplay::new(Arc::clone(&ds)));
    }
    #[cfg(not(kani))]
    {
        dh.set_keyboard(BufferedKeyboard::new(Arc::clone(&kb)));
        dh.set_display(BufferedDisplay::new(Arc::clone(&ds)));
    }
    let mut sim = Simulator::verif_from_parts(flags, mem, regs, 0x3000, psr0, Word::new_init(0x3000),
        FrameStack::verif_new_empty(false, 0), Box::new([]), 0, false, dh);
    load(&mut sim, 0x3000, user_word);
    // the PSR's default MMIO mapping (as in Simulator::new); used by split_on_cc
    let m = sim.mmap_internal(0xFFFC, lc3_ensemble::sim::InternalRegister::PSR);
    assert!(m.is_ok());
    std::mem::forget(m);
    World { psr0, sim, kb, ds, regs0 }
}

fn finished(w: &World) -> bool {
    w.sim.pc == 0x3001 && (w.sim.psr().get() >> 15) == 1
}

// The schedule trees are written out as nested code (no loop, no recursion): Kani has one
// unwinding bound per harness and every extra level is paid for by all loops and recursions of
// the real code (notably the drop glue of `Box<dyn Error>`).

/// one instruction, lock free
fn step(w: &mut World) {
    let r = w.sim.step_in();
    assert!(r.is_ok(), "a step of the OS routine failed");
    std::mem::forget(r);
}
/// one instruction while another thread holds the keyboard (0) / display (1) buffer lock
fn step_locked(w: &mut World, which: u8) {
    let r = if which == 0 {
        let g = w.kb.write().unwrap();
        let r = w.sim.step_in();
        drop(g);
        r
    } else {
        let g = w.ds.write().unwrap();
        let r = w.sim.step_in();
        drop(g);
        r
    };
    assert!(r.is_ok(), "a step of the OS routine failed");
    std::mem::forget(r);
}
/// a device-access instruction: whether the other thread holds the lock during it is either fixed
/// by the harness (`Some`) or a fresh symbolic decision (`None`)
fn dev_step(w: &mut World, which: u8, sched: Option<bool>) -> bool {
    let held = match sched { Some(h) => h, None => nd::any::<bool>() };
    if held { step_locked(w, which) } else { step(w) }
    held
}

fn assert_restored(w: &World, except_r0: bool) {
    if !except_r0 {
        assert!(w.sim.reg_file[REGS[0]] == w.regs0[0], "trap routine did not restore R0");
    }
    assert!(w.sim.reg_file[REGS[1]] == w.regs0[1] && w.sim.reg_file[REGS[2]] == w.regs0[2]
        && w.sim.reg_file[REGS[3]] == w.regs0[3] && w.sim.reg_file[REGS[4]] == w.regs0[4]
        && w.sim.reg_file[REGS[5]] == w.regs0[5] && w.sim.reg_file[REGS[6]] == w.regs0[6]
        && w.sim.reg_file[REGS[7]] == w.regs0[7], "trap routine did not restore a register");
    assert!(w.sim.psr().get() == w.psr0, "trap routine did not restore the PSR (condition codes / privilege / priority)");
    assert!(w.sim.verif_saved_sp() == Word::new_init(0x3000), "supervisor stack pointer not restored");
    assert!(w.sim.frame_stack.len() == 0, "frame depth not back to 0");
    assert!(!unsafe { PM_EXHAUSTED }, "harness bound: more than PM_K distinct memory cells");
}

/// GETC (TRAP x20) with two bytes queued: TRAP; [LDI KBSR; BRzp]+; LDI KBDR; RTI
pub fn getc(poll1: Option<bool>, poll2: Option<bool>, data: Option<bool>) {
    getc_psr(poll1, poll2, data, 0x8002)
}
/// `psr0`: the caller's PSR (user mode; condition code and priority concrete per harness)
pub fn getc_psr(poll1: Option<bool>, poll2: Option<bool>, data: Option<bool>, psr0: u16) {
    let b0: u8 = nd::any();
    let b1: u8 = nd::any();
    let mut w = world_psr(0xF020, VecDeque::from([b0, b1]), psr0);
    load(&mut w.sim, 0x0020, os::TRAP_GETC);
    load(&mut w.sim, os::TRAP_GETC, os_word(os::TRAP_GETC));
    load(&mut w.sim, os::TRAP_GETC + 1, os_word(os::TRAP_GETC + 1));
    load(&mut w.sim, os::TRAP_GETC + 2, os_word(os::TRAP_GETC + 2));
    load(&mut w.sim, os::TRAP_GETC + 3, os_word(os::TRAP_GETC + 3));
    load(&mut w.sim, os::KBSR, os_word(os::KBSR));
    load(&mut w.sim, os::KBDR, os_word(os::KBDR));
    let user_cell = any_word();
    w.sim.mem[0x3100] = user_cell;
    step(&mut w); // TRAP x20
    let poll1_held = dev_step(&mut w, 0, poll1); // LDI R0, KBSR
    step(&mut w); // BRzp
    if poll1_held {
        // the status read saw "not ready": the routine polls again
        assert!(w.sim.pc == os::TRAP_GETC, "GETC did not poll again after a busy status read");
        let poll2_held = dev_step(&mut w, 0, poll2);
        step(&mut w);
        if poll2_held {
            // bound: at most one failed status poll
            std::mem::forget(w);
            return;
        }
    }
    assert!(w.sim.pc == os::TRAP_GETC + 2, "GETC did not proceed to the data read after a ready status");
    let data_held = dev_step(&mut w, 0, data); // LDI R0, KBDR
    step(&mut w); // RTI
    assert!(finished(&w), "GETC did not return to the caller");
    {
        let q = w.kb.read().unwrap();
        if !data_held {
            assert!(w.sim.reg_file[REGS[0]] == Word::new_init(b0 as u16), "GETC did not return the next keyboard byte in R0");
            assert!(q.len() == 1 && q[0] == b1, "GETC did not consume exactly the byte it returned");
        } else {
            // limitation of the ready-then-read protocol under contention (DESIGN.md section 7)
            assert!(w.sim.reg_file[REGS[0]] == Word::new_init(b0 as u16) && q.len() == 1,
                    "KF-C33-getc: lock held during the KBDR read - stale byte delivered / queued byte not consumed");
        }
    }
    assert_restored(&w, true);
    assert!(w.sim.mem[0x3100] == user_cell, "trap routine changed user memory");
    crate::nd_cover!(!data_held, "GETC completes with an uncontended data read");
    std::mem::forget(w);
}

/// Re-concretisation of the PSR by a checked case split. After an instruction that sets the
/// condition codes from SYMBOLIC data the PSR is a symbolic expression and CBMC no longer sees its
/// privilege bit as a constant (every later step would be explored like a fully symbolic one).
/// `cont` is run once per condition code, after the PSR has been PROVEN equal to the constant
/// `base | cc` (assertion) and re-written with that very constant through the PSR's MMIO mapping at
/// xFFFC - a semantic no-op that makes the value syntactically constant on that path.
fn split_on_cc(w: &mut World, base: u16, only_positive: bool, cont: fn(&mut World, &PutcCtx), cx: &PutcCtx) {
    let p = w.sim.psr().get();
    let ctx = lc3_ensemble::sim::MemAccessCtx::omnipotent();
    if only_positive || p == (base | 1) {
        assert!(p == (base | 1), "PSR is not the expected privilege/priority with condition code p");
        let r = w.sim.write_mem(0xFFFC, Word::new_init(base | 1), ctx);
        std::mem::forget(r);
        cont(w, cx);
    } else if p == (base | 2) {
        let r = w.sim.write_mem(0xFFFC, Word::new_init(base | 2), ctx);
        std::mem::forget(r);
        cont(w, cx);
    } else {
        assert!(p == (base | 4), "PSR is not the expected privilege/priority plus a one-hot condition code");
        let r = w.sim.write_mem(0xFFFC, Word::new_init(base | 4), ctx);
        std::mem::forget(r);
        cont(w, cx);
    }
}

pub struct PutcCtx {
    pub data: Option<bool>,
    pub user_cell: Word,
}

/// the tail of PUTC after `LDR R0, R6, #0`: ADD R6,R6,#1; STI R0,DDR; RTI; checks
fn putc_tail(w: &mut World, cx: &PutcCtx) {
    step(w); // ADD R6, R6, #1
    let data_held = dev_step(w, 1, cx.data); // STI R0, DDR
    step(w); // RTI
    assert!(finished(w), "OUT did not return to the caller");
    {
        let out = w.ds.read().unwrap();
        let want = w.regs0[0].get() as u8;
        if !data_held {
            assert!(out.len() == 1 && out[0] == want, "OUT did not emit exactly R0's low byte once");
        } else {
            // limitation of the ready-then-write protocol under contention (DESIGN.md section 7b)
            assert!(out.len() == 1 && out[0] == want, "KF-C33-putc: lock held during the DDR write - output byte dropped");
        }
    }
    assert_restored(w, false);
    assert!(w.sim.mem[0x3100] == cx.user_cell, "trap routine changed user memory");
    crate::nd_cover!(!data_held, "OUT completes with an uncontended data write");
}

/// OUT / PUTC (TRAP x21): TRAP; ADD; STR; [LDI DSR; BRzp]+; LDR; ADD; STI DDR; RTI.
/// `char_only`: R0 holds a character 1..=x7F (one condition-code case instead of three).
pub fn putc(poll1: Option<bool>, poll2: Option<bool>, data: Option<bool>, char_only: bool) {
    let mut w = world(0xF021, VecDeque::new());
    if char_only {
        let v = w.regs0[0];
        nd::assume(v.get() >= 1 && v.get() <= 0x7F);
    }
    load(&mut w.sim, 0x0021, os::TRAP_PUTC);
    load(&mut w.sim, os::TRAP_PUTC, os_word(os::TRAP_PUTC));
    load(&mut w.sim, os::TRAP_PUTC + 1, os_word(os::TRAP_PUTC + 1));
    load(&mut w.sim, os::TRAP_PUTC + 2, os_word(os::TRAP_PUTC + 2));
    load(&mut w.sim, os::TRAP_PUTC + 3, os_word(os::TRAP_PUTC + 3));
    load(&mut w.sim, os::TRAP_PUTC + 4, os_word(os::TRAP_PUTC + 4));
    load(&mut w.sim, os::TRAP_PUTC + 5, os_word(os::TRAP_PUTC + 5));
    load(&mut w.sim, os::TRAP_PUTC + 6, os_word(os::TRAP_PUTC + 6));
    load(&mut w.sim, os::TRAP_PUTC + 7, os_word(os::TRAP_PUTC + 7));
    load(&mut w.sim, os::DSR, os_word(os::DSR));
    load(&mut w.sim, os::DDR, os_word(os::DDR));
    let user_cell = any_word();
    w.sim.mem[0x3100] = user_cell;
    step(&mut w); // TRAP x21
    step(&mut w); // ADD R6, R6, #-1
    step(&mut w); // STR R0, R6, #0
    let poll1_held = dev_step(&mut w, 1, poll1); // LDI R0, DSR
    step(&mut w); // BRzp
    if poll1_held {
        assert!(w.sim.pc == os::TRAP_PUTC + 2, "OUT did not poll again after a busy status read");
        let poll2_held = dev_step(&mut w, 1, poll2);
        step(&mut w);
        if poll2_held {
            std::mem::forget(w);
            return;
        }
    }
    assert!(w.sim.pc == os::TRAP_PUTC + 4, "OUT did not proceed after a ready status");
    step(&mut w); // LDR R0, R6, #0   (condition codes := sign of the symbolic R0)
    let cx = PutcCtx { data, user_cell };
    // supervisor mode, priority 0: PSR = x0000 | cc
    split_on_cc(&mut w, 0x0000, char_only, putc_tail, &cx);
    std::mem::forget(w);
}

/// S-hub: the device hub's port table and device vector live on the heap, where CBMC cannot
/// constant-propagate (DESIGN.md section 9); a lookup at a concrete port would fan out to every
/// device kind. The hub is replaced by its default wiring - KBSR/KBDR -> the keyboard, DSR/DDR ->
/// the display, nothing else - which is what `DeviceHandler::new()` + `set_keyboard`/`set_display`
/// establish (decided by C32). The keyboard, the display and their locks are the real ones.
pub static mut HUB_KB: Option<BufferedKeyboard> = None;
pub static mut HUB_DS: Option<BufferedDisplay> = None;
pub fn stub_hub_read(_this: &mut DeviceHandler, addr: u16, effectful: bool) -> Option<u16> {
    use lc3_ensemble::sim::device::ExternalDevice;
    unsafe {
        match addr {
            0xFE00 | 0xFE02 => (*std::ptr::addr_of_mut!(HUB_KB)).as_mut().unwrap().io_read(addr, effectful),
            0xFE04 | 0xFE06 => (*std::ptr::addr_of_mut!(HUB_DS)).as_mut().unwrap().io_read(addr, effectful),
            _ => None,
        }
    }
}
pub fn stub_hub_write(_this: &mut DeviceHandler, addr: u16, data: u16) -> bool {
    use lc3_ensemble::sim::device::ExternalDevice;
    unsafe {
        match addr {
            0xFE00 | 0xFE02 => (*std::ptr::addr_of_mut!(HUB_KB)).as_mut().unwrap().io_write(addr, data),
            0xFE04 | 0xFE06 => (*std::ptr::addr_of_mut!(HUB_DS)).as_mut().unwrap().io_write(addr, data),
            _ => false,
        }
    }
}

/// S-poll0: no device has an interrupt pending (keyboard interrupts are disabled in these
/// harnesses, the display never interrupts). The real arbitration is C10's harness.
pub fn stub_poll_none(_this: &mut DeviceHandler) -> Option<lc3_ensemble::sim::device::Interrupt> {
    None
}

#[macro_export]
macro_rules! pstep_harnesses {
    ($($name:ident = $body:expr;)*) => {
        $crate::harnesses! {
            $(
                #[kani::unwind(4)]
                #[kani::stub(lc3_ensemble::sim::observer::AccessObserver::update_mem_accesses, crate::kstep::stub_update_mem_accesses)]
                #[kani::stub(std::hash::RandomState::new, crate::kstep::stub_random_state)]
                #[kani::stub(<std::hash::DefaultHasher as std::hash::Hasher>::write, crate::kstep::stub_hasher_write)]
                #[kani::stub(<std::hash::DefaultHasher as std::hash::Hasher>::finish, crate::kstep::stub_hasher_finish)]
                #[kani::stub(std::mem::swap, crate::kstep::stub_swap)]
                #[kani::stub(<lc3_ensemble::sim::device::DeviceHandler as lc3_ensemble::sim::device::ExternalDevice>::poll_interrupt, crate::pstep::stub_poll_none)]
                #[kani::stub(<lc3_ensemble::sim::device::DeviceHandler as lc3_ensemble::sim::device::ExternalDevice>::io_read, crate::pstep::stub_hub_read)]
                #[kani::stub(<lc3_ensemble::sim::device::DeviceHandler as lc3_ensemble::sim::device::ExternalDevice>::io_write, crate::pstep::stub_hub_write)]
                #[kani::stub(<lc3_ensemble::sim::mem::MemArray as std::ops::Index<u16>>::index, crate::pstep::stub_pmem_index)]
                #[kani::stub(<lc3_ensemble::sim::mem::MemArray as std::ops::IndexMut<u16>>::index_mut, crate::pstep::stub_pmem_index_mut)]
                fn $name() { $body }
            )*
        }
    };
}

pub fn probe_steps1() {
    let b0: u8 = nd::any();
    let mut w = world(0xF020, VecDeque::from([b0]));
    load(&mut w.sim, 0x0020, os::TRAP_GETC);
    step(&mut w);
    assert!(w.sim.pc == os::TRAP_GETC);
    std::mem::forget(w);
}
crate::pstep_harnesses! {
    pprobe_step1 = probe_steps1();
    // C11: GETC's contract (no contention), called with each condition code (and a non-zero priority)
    c11_getc = getc(Some(false), Some(false), Some(false));
    c11_getc_ccn = getc_psr(Some(false), Some(false), Some(false), 0x8004);
    c11_getc_ccp_prio = getc_psr(Some(false), Some(false), Some(false), 0x8301);
    // C33, program level: the other thread holds the keyboard lock ...
    // ... possibly during the data read (symbolic), status poll uncontended
    c33_getc_data = getc(Some(false), Some(false), None);
    // ... during the first status poll (the routine must poll again), then not at all
    c33_getc_poll = getc(Some(true), Some(false), Some(false));
    // ... during the first status poll and possibly during the data read
    c33_getc_poll_data = getc(Some(true), Some(false), None);
    // OUT / PUTC: the condition codes become a symbolic expression after `LDR R0`; see split_on_cc
    c11_putc = putc(Some(false), Some(false), Some(false), false);
    // C33, program level, display: a character is written while the other thread possibly holds the lock
    c33_putc_data = putc(Some(false), Some(false), None, true);
    c33_putc_poll = putc(Some(true), Some(false), Some(false), true);
}
