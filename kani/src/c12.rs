//! C12 (inductive core) - real and virtual traps agree except at HALT and exceptions: one step_in
//! with `use_real_traps = true` from an arbitrary state equals the ISA model run with VIRTUAL traps,
//! for every step that neither halts nor faults under virtual traps. Executions under the two
//! settings therefore agree instruction by instruction up to the first HALT / exception.
use crate::kfam::{run, Opts, BASE};
crate::kstep_harnesses! {
    c12_same_step = run(Opts { class: crate::c08::CLASS_ANY, real_traps: Some(true), a_c12: true,
                               a_arch: true, a_mem: true, a_calls: true, a_depth: true, ..BASE });
}
