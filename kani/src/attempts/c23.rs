//! C23 - symbol-table label queries agree and ignore case.
//! Table of concrete shape (two labels, one of them an external declaration) with symbolic
//! addresses; queries under a catalogue of concrete spellings.
use crate::asmh::*;
use crate::nd;
use lc3_ensemble::asm::SymbolTable;

fn table(a: u16, start: usize) -> SymbolTable {
    // keys are stored upper-cased by pass 1 (add_label)
    SymbolTable::verif_from_parts(vec![lbl("LOOP", a, start, false), lbl("EXT", 0, 40, true)], vec![], None).unwrap()
}

crate::asm_harnesses! {
    #[unwind(12)]
    fn c23_lookup_any_case() {
        let a: u16 = nd::any();
        nd::assume(a != 0);
        let start: usize = nd::any();
        nd::assume(start < 1000);
        let t = table(a, start);
        let spellings = ["LOOP", "loop", "Loop", "lOOp"];
        let mut j = 0;
        while j < 4 {
            let s = spellings[j];
            assert!(t.lookup_label(s) == Some(a), "address lookup ignores case");
            assert!(t.get_label_source(s) == Some(start..start + 4), "source lookup ignores case and returns the label's span");
            j += 1;
        }
        assert!(t.lookup_label("ext") == Some(0), "external declaration looks up as address 0");
        assert!(t.lookup_label("LOOPS").is_none() && t.lookup_label("LOO").is_none(), "names not in the program give no result");
        assert!(t.get_label_source("nope").is_none(), "unknown label has no source");
        assert!(t.rev_lookup_label(a) == Some("LOOP"), "reverse lookup returns a label recorded at the address");
        let mut n = 0;
        let mut seen_loop = false;
        let mut seen_ext = false;
        for (name, addr, ext) in t.label_iter() {
            n += 1;
            if name == "LOOP" { seen_loop = addr == a && !ext; }
            if name == "EXT" { seen_ext = addr == 0 && ext; }
        }
        assert!(n == 2 && seen_loop && seen_ext, "label listing contains exactly the program's labels with address and external flag");
        std::mem::forget(t);
    }
}
