//! C17 - binary object format round-trips every object file.
//! Object files of concrete shape (built with the hooks) and symbolic scalars: block origin and
//! words, label address / external flag / source offset, relocation address, line table entries.
use crate::asmh::*;
use crate::nd;
use lc3_ensemble::asm::encoding::{BinaryFormat, ObjFileFormat};
use lc3_ensemble::asm::{ObjectFile, SymbolTable};

fn roundtrip(o: ObjectFile) {
    let bytes = BinaryFormat::serialize(&o);
    let back = BinaryFormat::deserialize(&bytes);
    match &back {
        None => assert!(false, "serialized object file does not deserialize"),
        Some(b) => assert!(*b == o, "deserialized object file differs from the original"),
    }
    std::mem::forget(back);
    std::mem::forget(bytes);
    std::mem::forget(o);
}

crate::asm_harnesses! {
    #[unwind(12)]
    fn c17_block_only() {
        let start: u16 = 0x3000; // BTreeMap key: concrete (see DESIGN.md section 9)
        let o = ObjectFile::verif_from_parts(vec![(start, vec![any_opt_word(), any_opt_word()])], None);
        roundtrip(o);
    }
    #[unwind(12)]
    fn c17_label_and_reloc() {
        let start: u16 = 0x3000; // BTreeMap key: concrete (see DESIGN.md section 9)
        let (laddr, raddr): (u16, u16) = (nd::any(), nd::any());
        let ext: bool = nd::any();
        let src_start: usize = nd::any();
        let sym = SymbolTable::verif_from_parts(vec![lbl("AB", laddr, src_start, ext)], vec![(raddr, String::from("AB"))], None).unwrap();
        let o = ObjectFile::verif_from_parts(vec![(start, vec![any_opt_word()])], Some(sym));
        crate::nd_cover!(raddr & 0xFF != raddr >> 8, "relocation address with different bytes");
        roundtrip(o);
    }
    #[unwind(12)]
    fn c17_debug_symbols() {
        let start: u16 = 0x3000; // BTreeMap key: concrete (see DESIGN.md section 9)
        let (l1, l2): (u16, u16) = (nd::any(), nd::any());
        nd::assume(l1 < l2);
        // 3-line source, lines 1 and 2 carry statements
        let sym = SymbolTable::verif_from_parts(vec![lbl("A", l1, 3, false)], vec![], Some((vec![None, Some(l1), Some(l2)], String::from("x\ny\nz")))).unwrap();
        let o = ObjectFile::verif_from_parts(vec![(start, vec![any_opt_word()])], Some(sym));
        roundtrip(o);
    }
}
