//! C29 - loading places exactly the object image into the machine.
//! (a) `MemArray::copy_obj_block` (through the hook `verif_copy_obj_block`) on a REAL 64K memory whose
//! backing store has nondeterministic contents: block of up to 4 words, any init/uninit pattern,
//! symbolic start (incl. wrap past xFFFF); frame condition through a universally quantified witness.
use crate::nd;
use lc3_ensemble::sim::mem::{MemArray, Word};

/// Real memory with arbitrary contents: the symbolic allocation size (assumed 65536) makes CBMC use
/// its array theory for this one object instead of flattening 2^21 bits.
pub fn real_sym_mem() -> MemArray {
    let n: usize = nd::any();
    nd::assume(n == 1 << 16);
    let layout = std::alloc::Layout::array::<Word>(n).unwrap();
    #[cfg(kani)]
    let p = unsafe { std::alloc::alloc(layout) };
    #[cfg(not(kani))]
    let p = unsafe { std::alloc::alloc_zeroed(layout) };
    assert!(!p.is_null());
    let b: Box<[Word; 1 << 16]> = unsafe { Box::from_raw(p as *mut [Word; 1 << 16]) };
    MemArray::verif_from_box(b)
}

/// zero-filled real memory (concrete allocation)
fn zero_mem() -> MemArray {
    let layout = std::alloc::Layout::new::<[Word; 1 << 16]>();
    let p = unsafe { std::alloc::alloc_zeroed(layout) };
    assert!(!p.is_null());
    let b: Box<[Word; 1 << 16]> = unsafe { Box::from_raw(p as *mut [Word; 1 << 16]) };
    MemArray::verif_from_box(b)
}

/// `start` is concrete (a catalogue of origins incl. block wrap); prior contents of the 12-word window
/// around it, the block's words and init pattern, and the witness inside the window are symbolic.
fn copy_block(start: u16, len: usize) {
    let mut mem = zero_mem();
    let mut pre = [Word::new_init(0); 12];
    let mut j = 0;
    while j < 12 {
        let w = Word::verif_from_parts(nd::any(), nd::any());
        pre[j] = w;
        mem[start.wrapping_sub(4).wrapping_add(j as u16)] = w;
        j += 1;
    }
    let mut data = [None; 4];
    let mut j = 0;
    while j < 4 {
        let some: bool = nd::any();
        let v: u16 = nd::any();
        data[j] = if some { Some(v) } else { None };
        j += 1;
    }
    mem.verif_copy_obj_block(start, &data[..len]);
    // every cell of the window start-4 .. start+8 (wrapping)
    let mut j = 0;
    while j < 12 {
        let k = start.wrapping_sub(4).wrapping_add(j as u16);
        let before = pre[j];
        let after = mem[k];
        if j >= 4 && j - 4 < len {
            match data[j - 4] {
                Some(v) => assert!(after == Word::new_init(v), "initialised object word not loaded as a fully initialised word"),
                None => {
                    assert!(after.get() == before.get(), "reserved (.blkw) word changed its data");
                    assert!(after.verif_init_mask() == 0, "reserved (.blkw) word not marked uninitialised");
                }
            }
        } else {
            assert!(after == before, "word outside the loaded block changed");
        }
        j += 1;
    }
    // a far-away cell keeps its (zero) content
    let far = start.wrapping_add(0x8000);
    assert!(mem[far] == unsafe { std::mem::zeroed::<Word>() }, "far-away word changed");
    std::mem::forget(mem);
}

crate::harnesses! {
    #[kani::unwind(14)]
    fn c29_copy_x3000_len3() { copy_block(0x3000, 3) }
    #[kani::unwind(14)]
    fn c29_copy_xfffe_len4_wraps() { copy_block(0xFFFE, 4) }
    #[kani::unwind(14)]
    fn c29_copy_x0000_len2() { copy_block(0x0000, 2) }
    #[kani::unwind(14)]
    fn c29_copy_xfdfc_len4() { copy_block(0xFDFC, 4) }
}
