//! C21 - external references are never silently left unresolved (pass-1 half).
//! `SymbolTable::new` on ASTs of concrete shape: a `.fill X` whose label X is declared `.external`
//! before or after the use must be recorded as a pending relocation at the .fill's address, and X
//! must be listed as an external symbol (which is what makes `load_obj_file` refuse the file).
use crate::asmh::*;
use crate::nd;
use lc3_ensemble::asm::SymbolTable;

fn has_reloc(t: &SymbolTable, addr: u16, name: &str) -> bool {
    let mut found = false;
    for (a, l) in t.verif_rel_iter() {
        if a == addr && l == name { found = true; }
    }
    found
}
fn is_external(t: &SymbolTable, name: &str) -> bool {
    let mut found = false;
    for (n, _a, ext) in t.label_iter() {
        if n == name && ext { found = true; }
    }
    found
}

fn shape(decl_first: bool) {
    let o: u16 = nd::any();
    nd::assume(o <= 0xFD00);
    let v: u16 = nd::any();
    // 0:".orig" 1:".external X" / ".fill X" ...
    // the AST lives in a stack array (pass 1 takes a slice): CBMC keeps each statement's enum
    // discriminant concrete, which it does not for a heap-allocated Vec<Stmt>
    let ast = if decl_first {
        [external("X", 10, 0..11), orig(o, 12..20), fill_num(v, 21..28), fill_label("X", 35, 29..36), end(37..41)]
    } else {
        [orig(o, 0..8), fill_num(v, 9..16), fill_label("X", 23, 17..24), end(25..29), external("X", 40, 30..41)]
    };
    let r = SymbolTable::new(&ast[..], None);
    match &r {
        Err(_) => assert!(false, "well-formed program with an external label rejected"),
        Ok(t) => {
            assert!(is_external(t, "X"), "declared external label not listed as external");
            assert!(has_reloc(t, o.wrapping_add(1), "X"), ".fill of an external label left without a relocation entry");
        }
    }
    std::mem::forget(r);
    std::mem::forget(ast);
}

crate::asm_harnesses! {
    #[unwind(8)]
    fn c21_external_before_use() { shape(true) }
    #[unwind(8)]
    fn c21_external_after_use() { shape(false) }
}
