#!/usr/bin/env python3
"""Fills the SEEDED_TABLE placeholder / regenerates the seeded-change table of DESIGN.md from seeded/*/meta.json."""
import json, glob, os, re
rows = []
for d in sorted(glob.glob('/verif/seeded/*/')):
    m = json.load(open(d + 'meta.json'))
    tag = m['id']; prop = m['property']
    patch = open(d + 'patch.diff').read()
    files = sorted(set(re.findall(r'^\+\+\+ b/(\S+)', patch, re.M)))
    # the change itself: first removed / added line of the patch
    minus = [l[1:].strip() for l in patch.split('\n') if l.startswith('-') and not l.startswith('---') and l[1:].strip()]
    plus = [l[1:].strip() for l in patch.split('\n') if l.startswith('+') and not l.startswith('+++') and l[1:].strip() and not l[1:].strip().startswith('//')]
    what = '`%s` -> `%s`' % ((minus[0] if minus else '(added)')[:70], (plus[0] if plus else '(removed)')[:70])
    runs = m.get('check_runs', {})
    res = []
    for tier, r in sorted(runs.items()):
        hs = sorted(set(re.findall(r'harness=(\S+)', ' '.join(r.get('violation_lines', [])))))
        verdict = {1: 'VIOLATION', 0: 'missed (exit 0)', 2: 'inconclusive (exit 2)'}.get(r['exit'], 'exit %s' % r['exit'])
        label = tier if ':' in tier else '%s:%s' % (prop, tier)
        res.append('%s: %s%s' % (label, verdict, (' by ' + ', '.join(hs)) if hs else ''))
    rows.append('| %s | %s | %s | %s | %s |' % (tag, prop, ', '.join(files), what.replace('|', '/'), '; '.join(res) or 'not run'))
table = '| seed | property | file | change | `./check <prop>` on the changed tree |\n|---|---|---|---|---|\n' + '\n'.join(rows)
p = '/verif/DESIGN.md'
s = open(p).read()
if 'SEEDED_TABLE' in s:
    s = s.replace('SEEDED_TABLE', '<!-- seeded-table-begin -->\n' + table + '\n<!-- seeded-table-end -->')
else:
    s = re.sub(r'<!-- seeded-table-begin -->.*?<!-- seeded-table-end -->', '<!-- seeded-table-begin -->\n' + table.replace('\\', '\\\\') + '\n<!-- seeded-table-end -->', s, flags=re.S)
open(p, 'w').write(s)
print(table)
