#!/bin/bash
# usage: seedverify.sh <tag> <prop>   (tag = worktree suffix, e.g. C08a)
# Confirms a seeded change independently in a scratch worktree and stores it under /verif/seeded/<tag>/
set -u
tag=$1; prop=$2
src=/tmp/wt_$tag
lt=$(echo $tag | tr 'A-Z' 'a-z')
vw=/tmp/vw_$tag
rm -rf $vw; git -C /repo worktree prune; git -C /repo worktree add -q --detach $vw HEAD || exit 9
cd $vw
mkdir -p tests; cp $src/tests/demo_$lt.rs tests/
out=/verif/seeded/$tag; mkdir -p $out
# 1. demo passes on the unmodified tree
cargo test --offline --test demo_$lt > $out/demo_clean.log 2>&1; clean=$?
# 2. apply the change: suite still passes, demo fails
git apply $src/patch.diff || { echo "patch does not apply"; exit 8; }
cargo test --offline --lib > $out/suite_lib.log 2>&1; lib=$?
cargo test --offline --doc > $out/suite_doc.log 2>&1; doc=$?
cargo test --offline --test demo_$lt > $out/demo_mut.log 2>&1; mut=$?
cp $src/patch.diff $out/patch.diff; cp $src/tests/demo_$lt.rs $out/; cp $src/NOTES.md $out/NOTES.md 2>/dev/null
echo "$tag prop=$prop demo_clean_exit=$clean suite_lib_exit=$lib suite_doc_exit=$doc demo_mutant_exit=$mut"
python3 - <<PY
import json
json.dump(dict(id="$tag", property="$prop", patch="patch.diff", demo="demo_$lt.rs",
  confirmed=dict(demo_on_clean_tree_exit=$clean, lib_tests_with_change_exit=$lib, doc_tests_with_change_exit=$doc, demo_with_change_exit=$mut),
  ran=["cargo test --offline --test demo_$lt (clean tree)", "git apply patch.diff", "cargo test --offline --lib", "cargo test --offline --doc", "cargo test --offline --test demo_$lt"],
  needs=open("$src/NOTES.md").read()[:1500] if __import__("os").path.exists("$src/NOTES.md") else ""), open("$out/meta.json","w"), indent=1)
PY
cd /; git -C /repo worktree remove --force $vw
