#!/usr/bin/env python3
"""Regenerates MANIFEST.json from registry.py (claimed checks) and NOT_APPLICABLE below."""
import json, os, sys
ROOT = os.path.dirname(os.path.abspath(__file__))
sys.path.insert(0, ROOT)
import registry

props = [json.loads(l) for l in open(os.path.join(ROOT, "properties.jsonl"))]
ids = [p["id"] for p in props]
checks = []
for pid in ids:
    if pid not in registry.PROPS:
        continue
    P = registry.PROPS[pid]
    c = dict(
        property_id=pid,
        quick_cmd="./check %s --tier quick" % pid,
        thorough_cmd="./check %s --tier thorough" % pid,
        evidence_file="/verif/evidence/%s.json" % pid,
        replay_cmd_template="./check %s --replay {path}" % pid,
        engine="kani-cbmc",
        level_claimed=dict(category=P.get("level", "model_checking"), text=P["claim"], design_ref=P.get("design_ref", "DESIGN.md")),
        level_note=P["note"],
        technique=P.get("technique", "bounded model checking of the compiled Rust code (Kani 0.68 -> CBMC 6.11 -> CaDiCaL), symbolic inputs, unwinding assertions on, counterexamples replayed natively"),
    )
    checks.append(c)
na = []
for pid in ids:
    if pid in registry.PROPS:
        continue
    na.append(dict(property_id=pid, reason=registry.NOT_APPLICABLE.get(pid, "check not built yet (see DESIGN.md); nothing is claimed for this property")))
m = dict(
    version=1,
    setup_cmd="./check --setup",
    hooks=dict(
        guard="cargo feature `verif` of lc3-ensemble (#[cfg(feature = \"verif\")])",
        enable="the harness crate /verif/kani depends on lc3-ensemble = { path = \"/repo\", features = [\"verif\"] }",
        baseline_off_cmd="cd /repo && cargo test --workspace --no-fail-fast --offline",
        source_commits=registry.HOOK_COMMITS,
        add_only=True,
    ),
    engines=[dict(name="kani-cbmc", path="/verif/check", serves_properties=[c["property_id"] for c in checks],
                  kind_free_text="Kani 0.68 compiles /repo (path dependency) + /verif/kani harnesses to a goto-program on every run; CBMC 6.11 unrolls within #[kani::unwind] bounds with unwinding assertions; CaDiCaL decides; counterexamples are replayed on a native build (dev + release)")],
    checks=checks,
    notes="See DESIGN.md. Exit 2 of ./check means inconclusive (timeout / OOM / tool error / vacuous harness / non-reproducing counterexample) and is never reported as a pass.",
    not_applicable=na,
)
json.dump(m, open(os.path.join(ROOT, "MANIFEST.json"), "w"), indent=1)
print("claimed:", [c["property_id"] for c in checks])
print("not applicable:", [n["property_id"] for n in na])
