#!/bin/bash
# Runs every claimed property's quick check sequentially on the current /repo tree and records exit codes.
cd /verif
: > /tmp/runall.log
for p in $(python3 -c "import json; print(' '.join(c['property_id'] for c in json.load(open('MANIFEST.json'))['checks']))"); do
  s=$(date +%s)
  ./check $p --tier quick > /tmp/runall_$p.log 2>&1
  rc=$?
  echo "$p exit=$rc wall=$(( $(date +%s) - s ))s" >> /tmp/runall.log
done
echo done >> /tmp/runall.log
