"""Registry of properties -> harnesses (see DESIGN.md). Consumed by ./check."""


def H(name, tier="quick", **kw):
    d = dict(name=name, tier=tier)
    d.update(kw)
    return d


PROPS = {}
HOOK_COMMITS = ["7a26697"]
NOT_APPLICABLE = {
    "C31": "determinism of whole seeded runs is a 2-safety property over ChaCha12 (StdRng) and a 65536-iteration fill loop; no bound small enough to encode keeps the property's content (DESIGN.md section 6)",
}

PROPS["C35"] = dict(
    level="model_checking",
    claim="For every N in 1..=16 and every i16/u16 value, Offset::new accepts exactly the representable values and stores them, and new_trunc yields the sign/zero extension of the low N bits; decided by the SAT solver over the full 16-bit input space for each of the 32 generic instantiations (no sampling, no input bound).",
    note="Trusts Kani's MIR->goto translation, CBMC and CaDiCaL; the oracle is a mask/compare model in kani/src/c35.rs.",
    design_ref="DESIGN.md section 4 (C35)",
    jobs=4,
    bounds="input: every i16 / u16 value (full width); N = 1..=16, one instantiation each (32 generic instances); no loops",
    outside="N = 0 and N > 16 (documented panic)",
    assumptions=["Kani's model of Rust integer shifts / casts", "CBMC 6.11 + CaDiCaL"],
    harnesses=[
        H("c35_new_i16", encodes=["ast::Offset::<i16,N>::new", "ast::Offset::get", "OffsetBacking for i16::truncate"],
          bound="v: any i16; N in 1..=16"),
        H("c35_new_u16", encodes=["ast::Offset::<u16,N>::new", "OffsetBacking for u16::truncate"], bound="v: any u16; N in 1..=16"),
        H("c35_trunc_i16", encodes=["ast::Offset::<i16,N>::new_trunc"], bound="v: any i16; N in 1..=16"),
        H("c35_trunc_u16", encodes=["ast::Offset::<u16,N>::new_trunc"], bound="v: any u16; N in 1..=16"),
    ],
)

PROPS["C06"] = dict(
    level="model_checking",
    claim="For all 65536 words decode succeeds exactly on canonical encodings with the documented error kinds, decoded fields equal the ISA bit-field table and re-encoding returns the word; for every representable instruction encode matches the table and decode(encode(i)) == i. Both directions are decided symbolically at full width.",
    note="Oracle: independent bit-field decoder/encoder kani/src/spec/instr.rs (self-checked inside the same query). Trusts Kani/CBMC/CaDiCaL.",
    design_ref="DESIGN.md section 4 (C06)",
    jobs=2,
    bounds="every 16-bit word; every representable SimInstr (18 shapes x all register / offset field values); no loops over input",
    outside="nothing inside the statement; the reference is the bit-field table in kani/src/spec/instr.rs",
    assumptions=["reference decoder/encoder kani/src/spec/instr.rs transcribes Patt & Patel app. A correctly (self-checked: spec encode(decode(w)) == w in the same query)"],
    harnesses=[
        H("c06_decode_all_words", encodes=["ast::sim::SimInstr::decode", "SimInstr::encode", "join_bits", "DecodeUtils for u16", "FromBits impls"],
          bound="w: any u16", timeout=900),
        H("c06_encode_all_instrs", encodes=["SimInstr::encode", "SimInstr::decode", "Offset::new", "Reg::try_from"],
          bound="any SimInstr built from in-range fields", timeout=900),
    ],
)

PROPS["C15"] = dict(
    level="model_checking",
    claim="2-safety by self-composition at full width: for +, -, &, ! (and the += / -= forms with Word, u16, i16) any two executions whose operands agree on their initialised bits agree on every result bit reported initialised; fully initialised operands give fully initialised wrapping results.",
    note="Uses the hook Word::verif_from_parts to build arbitrary (data, init) pairs. Trusts Kani/CBMC/CaDiCaL.",
    design_ref="DESIGN.md section 4 (C15)",
    jobs=5,
    bounds="operands: any (data, init) pair of 16-bit masks, two runs agreeing on initialised bits (2-safety by self-composition); no loops",
    outside="nothing inside the statement",
    assumptions=["hook Word::verif_from_parts builds exactly the (data, init) pair given"],
    harnesses=[
        H("c15_add", encodes=["sim::mem::Word::add", "Word::add_assign"], bound="full width"),
        H("c15_sub", encodes=["Word::sub", "Word::sub_assign"], bound="full width"),
        H("c15_and", encodes=["Word::bitand", "Word::bitand_assign"], bound="full width"),
        H("c15_not", encodes=["Word::not"], bound="full width"),
        H("c15_scalar_assign", encodes=["AddAssign<u16>/<i16>", "SubAssign<u16>/<i16> for Word"], bound="full width"),
    ],
)
