"""Registry of properties -> harnesses (see DESIGN.md). Consumed by ./check."""


def H(name, tier="quick", **kw):
    d = dict(name=name, tier=tier)
    d.update(kw)
    return d


PROPS = {}
HOOK_COMMITS = ["7a26697", "a47c300"]
NOT_APPLICABLE = {
    "C02": "acceptance is decided by pass 1/pass 2 over a Vec<Stmt> with HashMap<String,_> and BTreeMap: symbolic execution of SymbolTable::new on a 5-statement all-concrete AST (stack array, S-hash/S-upper stubs) did not finish in 600 s / 11 GB (DESIGN.md section 9); there is no public kernel below it",
    "C03": "needs the logos lexer + parser on symbolic text (3 symbolic bytes: symex out of memory, DESIGN.md section 1). A token-level variant (hook Parser::verif_from_tokens) would drive the Parse impls over a heap Vec<(Token, Span)> with String payloads - the heap-Vec limitation of section 9 - and would not carry the layout-insensitivity half of the property anyway; not built",
    "C04": "needs parse_ast / the lexer loop on arbitrary strings: symbolic execution runs out of memory for 3 symbolic bytes (DESIGN.md section 1)",
    "C17": "ObjectFile is a BTreeMap<u16, Vec<_>> + HashMap<String,_>: building a 1-block object and inserting one block (all keys concrete) did not finish symbolic execution in 300-600 s (B-tree node code, DESIGN.md section 9)",
    "C18": "text format: line splitting, str::parse, escape_default/unescaper over Strings plus the BTreeMap/HashMap containers of C17: out of reach (DESIGN.md sections 5, 9)",
    "C19": "deserializers build BTreeMap/HashMap<String,_> (see C17); 8 symbolic bytes after the magic: still in symex at 620 s / 6.5 GB (DESIGN.md section 9)",
    "C20": "ObjectFile::link merges BTreeMaps and HashMap<String,_>: two 1-block files with concrete origins did not finish symbolic execution in 300-600 s (DESIGN.md section 9)",
    "C21": "needs pass 1 (SymbolTable::new) and ObjectFile::new/link/load: pass 1 on a 5-statement concrete AST did not finish in 600 s (DESIGN.md section 9)",
    "C22": "DebugSymbols::link extends a BTreeMap line map and re-indexes the concatenated source text: out of reach (see C17, C25 notes)",
    "C23": "SymbolTable queries are HashMap<String,_> lookups behind to_uppercase: a 2-label table with 4 concrete query spellings timed out in symex at 900 s (DESIGN.md section 9). (Native observation only, not decided by this technique: get_label_source does not upper-case its argument.)",
    "C24": "the line map is a BTreeMap built by pass 1 over the AST with a SourceInfo: out of reach (see C02, C17)",
    "C29": "copy_obj_block slices the 256 KB memory object: symbolic origin -> out of memory at 41 GB; concrete origins with a 12-word window -> symex did not finish in 600 s (memcpy / chunk_by on the heap block); load_obj_file additionally iterates a BTreeMap; Simulator::new needs the parser on os.asm",
    "C30": "reset() rebuilds the machine through Simulator::new (65536-word fill, parser + assembler on os.asm, 6-insert trap table); not attempted after the container probes (DESIGN.md section 9)",
    "C36": "printing is core::fmt, re-parsing is the logos lexer on the printed (symbolic) text: out of reach (DESIGN.md section 5b)",
    "C31": "determinism of whole seeded runs is a 2-safety property over ChaCha12 (StdRng) and a 65536-iteration fill loop; no bound small enough to encode keeps the property's content (DESIGN.md section 6)",
}

PROPS["C35"] = dict(
    level="model_checking", exhaustive=True,
    claim="For every N in 1..=16 and every i16/u16 value, Offset::new accepts exactly the representable values and stores them, and new_trunc yields the sign/zero extension of the low N bits; decided by the SAT solver over the full 16-bit input space for each of the 32 generic instantiations (no sampling, no input bound).",
    note="Trusts Kani's MIR->goto translation, CBMC and CaDiCaL; the oracle is a mask/compare model in kani/src/c35.rs.",
    design_ref="DESIGN.md section 4 (C35)",
    jobs=4,
    bounds="input: every i16 / u16 value (full width); N = 1..=16, one instantiation each (32 generic instances); no loops",
    outside="N = 0 and N > 16 (documented panic)",
    assumptions=["Kani's model of Rust integer shifts / casts", "CBMC 6.11 + CaDiCaL"],
    harnesses=[
        H("c35_new_i16", encodes=["ast::Offset::<i16,N>::new", "ast::Offset::get", "OffsetBacking for i16::truncate"],
          bound="v: any i16; N in 1..=16"),
        H("c35_new_u16", encodes=["ast::Offset::<u16,N>::new", "OffsetBacking for u16::truncate"], bound="v: any u16; N in 1..=16"),
        H("c35_trunc_i16", encodes=["ast::Offset::<i16,N>::new_trunc"], bound="v: any i16; N in 1..=16"),
        H("c35_trunc_u16", encodes=["ast::Offset::<u16,N>::new_trunc"], bound="v: any u16; N in 1..=16"),
    ],
)

PROPS["C06"] = dict(
    level="model_checking", exhaustive=True,
    claim="For all 65536 words decode succeeds exactly on canonical encodings with the documented error kinds, decoded fields equal the ISA bit-field table and re-encoding returns the word; for every representable instruction encode matches the table and decode(encode(i)) == i. Both directions are decided symbolically at full width.",
    note="Oracle: independent bit-field decoder/encoder kani/src/spec/instr.rs (self-checked inside the same query). Trusts Kani/CBMC/CaDiCaL.",
    design_ref="DESIGN.md section 4 (C06)",
    jobs=2,
    bounds="every 16-bit word; every representable SimInstr (18 shapes x all register / offset field values); no loops over input",
    outside="nothing inside the statement; the reference is the bit-field table in kani/src/spec/instr.rs",
    assumptions=["reference decoder/encoder kani/src/spec/instr.rs transcribes Patt & Patel app. A correctly (self-checked: spec encode(decode(w)) == w in the same query)"],
    harnesses=[
        H("c06_decode_all_words", encodes=["ast::sim::SimInstr::decode", "SimInstr::encode", "join_bits", "DecodeUtils for u16", "FromBits impls"],
          bound="w: any u16", timeout=900),
        H("c06_encode_all_instrs", encodes=["SimInstr::encode", "SimInstr::decode", "Offset::new", "Reg::try_from"],
          bound="any SimInstr built from in-range fields", timeout=900),
    ],
)

PROPS["C15"] = dict(
    level="model_checking", exhaustive=True,
    claim="2-safety by self-composition at full width: for +, -, &, ! (and the += / -= forms with Word, u16, i16) any two executions whose operands agree on their initialised bits agree on every result bit reported initialised; fully initialised operands give fully initialised wrapping results.",
    note="Uses the hook Word::verif_from_parts to build arbitrary (data, init) pairs. Trusts Kani/CBMC/CaDiCaL.",
    design_ref="DESIGN.md section 4 (C15)",
    jobs=5,
    bounds="operands: any (data, init) pair of 16-bit masks, two runs agreeing on initialised bits (2-safety by self-composition); no loops",
    outside="nothing inside the statement",
    assumptions=["hook Word::verif_from_parts builds exactly the (data, init) pair given"],
    harnesses=[
        H("c15_add", encodes=["sim::mem::Word::add", "Word::add_assign"], bound="full width"),
        H("c15_sub", encodes=["Word::sub", "Word::sub_assign"], bound="full width"),
        H("c15_and", encodes=["Word::bitand", "Word::bitand_assign"], bound="full width"),
        H("c15_not", encodes=["Word::not"], bound="full width"),
        H("c15_scalar_assign", encodes=["AddAssign<u16>/<i16>", "SubAssign<u16>/<i16> for Word"], bound="full width"),
    ],
)


_K_ENC = ["sim::Simulator::step_in", "Simulator::step", "Simulator::_step_inner", "Simulator::handle_interrupt", "Simulator::call_interrupt",
          "Simulator::call_subroutine", "Simulator::read_mem", "Simulator::write_mem", "Simulator::set_pc", "Simulator::offset_pc",
          "Simulator::set_cc", "Simulator::default_mem_ctx", "Simulator::in_alloca", "Simulator::prefetch_pc", "PSR::*",
          "SimInstr::decode", "Word ops", "FrameStack::{push_frame,pop_frame}", "MemArray Index/IndexMut"]
_K_STUBS = ["S-mem: <MemArray as Index/IndexMut<u16>> -> lazily materialised associative memory of <= 8 cells with arbitrary pre-drawn contents (exact for steps touching <= 8 distinct addresses; asserted)",
            "S-hash: DefaultHasher::{write,finish} -> constant hash 0 (a legal hash function)", "S-swap: mem::swap by moves",
            "S-dev: <DeviceHandler as ExternalDevice>::{io_read,io_write,poll_interrupt} -> scripted arbitrary answers + call log",
            "S-obs: AccessObserver::update_mem_accesses -> fixed-size log", "S-rand: RandomState::new -> fixed keys"]
# CBMC's pointer-validity instrumentation (for unsafe code) is 90% of the formula and is not what these
# properties are about; Rust-level panics (overflow, bounds, unwrap, unreachable) stay encoded as assertions.
_K_ARGS = ["-Z", "unstable-options", "--no-memory-safety-checks", "--no-assertion-reach-checks"]
_C08_CLASSES = ["op0_br", "op1_add", "op2_ld", "op3_st", "op4_jsr", "op5_and", "op6_ldr", "op7_str", "op8_rti", "op9_not",
                "op10_ldi", "op11_sti", "op12_jmp", "op13_res", "op14_lea", "op15_trap", "irq", "iofetch", "g_alu", "g_mem", "g_sys", "all"]
PROPS["C08"] = dict(
    level="model_checking",
    jobs=3, heavy_jobs=2,
    claim="One step_in from an ARBITRARY machine state (all 65536 memory words, registers with init masks, PC, raw PSR, saved SP, frame depth, flags real_traps/ignore_privilege symbolic; strict off) equals the independent ISA model on result kind, R0-R7, PC, PSR, saved SP, prefetch flag, instruction counter, frame depth, every memory cell and the ordered device calls. Because the pre-state is unconstrained this is the induction step for executions of any length.",
    note="Device hub and observer container abstracted by stubs S-dev/S-obs (their own properties: C32-C34, C28). c08_all runs with no internal-register mapping, c08_iregs with the default ones (PSR xFFFC, MCR xFFFE): accesses there reach the register and never a device. Interrupt vectors x00-x02 excluded; ISA model kani/src/spec/isa.rs is the oracle.",
    design_ref="DESIGN.md section 3 (C08)",
    bounds="exactly one step_in per harness; 18 harness classes (16 opcodes with the 12 operand bits symbolic, pending interrupt, fetch from the I/O page); unwind 9; strict = false; debug_frames = false",
    outside="multi-step runs (by induction only), strict mode (C14), devices' internals (C32-C34), register mappings other than the default two, OS-entry pushes landing on the mapped registers, instructions_run wrap",
    assumptions=_K_STUBS + ["frame depth < 2^64-1", "interrupt vectors >= x03", "CBMC pointer checks off (--no-memory-safety-checks): memory safety of std's unsafe code is trusted"],
    harnesses=[H("c08_all", stubbing=True, kani_args=_K_ARGS, encodes=_K_ENC, heavy=True, timeout=1800,
                 bound="one step; fetched word, pending interrupt and PC (incl. the I/O page) all symbolic"),
               H("c08_iregs", module="c08::ir", stubbing=True, kani_args=_K_ARGS, encodes=_K_ENC + ["Simulator::mmap_internal", "InternalRegister::{read,write}", "PSR::set"], heavy=True, timeout=1800,
                 cover_tags=["step", "mem", "calls", "depth", "iregs"],
                 bound="as c08_all, with the default internal-register mappings installed (PSR at xFFFC, MCR at xFFFE, MCR value symbolic); stack pointers not within 3 words of the top of memory")] +
              [H("c08_" + c, tier="thorough", stubbing=True, kani_args=_K_ARGS, encodes=_K_ENC, bound="one step, class " + c, timeout=2400)
               for c in _C08_CLASSES if c != "all"],
)

PROPS["PROBE"] = dict(level="model_checking", claim="", note="", jobs=3,
    harnesses=[H("probe_build", stubbing=True), H("probe_model", stubbing=True), H("probe_real", stubbing=True)])

PROPS["C34"] = dict(
    level="model_checking", jobs=3,
    claim="(a) one poll_interrupt from an arbitrary timer state (remaining time, range bounds and inclusiveness over full u32, enabled flag, priority) behaves as the countdown contract says; (b) over 10 consecutive polls with ranges 1 <= lo <= hi <= 3 (and exact counts) every gap between consecutive interrupts lies in the range, the first interrupt comes within max+1 polls of enabling/reset and the timer keeps firing; (c) a disabled timer never fires and keeps its countdown.",
    note="S-rng: only the generator's block output <StdRng as RngCore>::next_u32 is replaced by an arbitrary u32 (plus a zeroed generator for from_seed, whose seeding executes cpuid inline asm); TimerDevice::try_generate_time and rand's real range sampler (Canon's method) are part of the encoding, so 'the sample lies in the range' is derived, not assumed. Seed determinism ('same seed gives the same sequence') and ranges containing 0 are outside the claim; the interrupt vector is not observable at device level (checked through C08's interrupt class).",
    design_ref="DESIGN.md section 5 (C34)",
    bounds="(a) one poll, full 32-bit width; (b) 10 polls, 1 <= lo <= hi <= 3; (c) 4 polls; unwind 14",
    outside="seed determinism; ranges containing 0; empty ranges; gaps for hi > 3 (covered inductively by (a))",
    assumptions=["S-rng: ChaCha12 block output arbitrary; S-seed: zeroed generator state", "one_poll: range width < 2^8 (quick) / 2^16 (thorough): the sampler multiplies a random 32-bit word by the width"],
    harnesses=[
        H("c34_one_poll", stubbing=True, encodes=["TimerDevice::poll_interrupt", "TimerDevice::reset_remaining", "TimerDevice::new", "TimerDevice::set_range", "SampleRange::new", "Interrupt::vectored", "Interrupt::priority"], bound="one poll; lo, hi, remaining time any u32 with hi - lo < 256"),
        H("c34_one_poll_w16", tier="thorough", stubbing=True, timeout=3000, encodes=["as c34_one_poll"], bound="one poll; hi - lo < 65536"),
        H("c34_gaps", stubbing=True, encodes=["TimerDevice::poll_interrupt", "TimerDevice::set_exact", "TimerDevice::io_reset"], bound="10 polls, 1<=lo<=hi<=3"),
        H("c34_disabled", stubbing=True, encodes=["TimerDevice::poll_interrupt", "TimerDevice::io_read", "TimerDevice::io_write"], bound="4 polls"),
    ],
)
PROPS["C33"] = dict(
    level="model_checking", jobs=4, heavy_jobs=2,
    claim="Device level, inductive: from an arbitrary queue/buffer (<= 2 bytes) one keyboard or display access, with the buffer lock REALLY held by the harness or not (symbolic), changes the buffer only by popping the front byte on an uncontended effectful KBDR read / appending the written byte on an uncontended DDR write, reports readiness only when the access would succeed now, never duplicates, reorders or invents bytes.",
    note="Program level (P-step harnesses c33_getc_*): the built-in OS's GETC routine executed by the real simulator on concrete code with symbolic data, the keyboard lock really held during chosen instructions: a busy status poll makes the routine poll again and the byte is still delivered once; a lock held during the KBDR read delivers a stale byte and leaves the queued byte unconsumed - a limitation of the ready-then-read protocol, recorded as a known finding (known_findings.txt, DESIGN.md section 7). OUT/PUTS under contention are not decided (the condition codes become a symbolic expression and the steps explode). Stubs in the P-step harnesses: S-hub (default wiring KBSR/KBDR -> keyboard, DSR/DDR -> display instead of the heap port table), S-poll0 (no interrupt pending), S-obs, S-hash, S-swap, a 20-cell associative memory preloaded with the OS words (regenerated from /repo/src/os.asm on every run).",
    design_ref="DESIGN.md section 5 (C33)",
    bounds="queue/buffer length <= 2 symbolic bytes; one access (KBSR/KBDR read, effectful or not, any write, poll); unwind 6",
    outside="OUT / PUTS / longer programs under contention; more than one failed status poll; queues longer than 2 (VecDeque/Vec operations are length-uniform)",
    assumptions=["Kani's sequential model of std::sync::RwLock atomics"],
    harnesses=[
        H("c33_keyboard_n0", bound="empty queue, one access", encodes=["BufferedKeyboard as ExternalDevice"]),
        H("c33_keyboard_n1", bound="1 symbolic byte queued, one access", encodes=["BufferedKeyboard as ExternalDevice"]),
        H("c33_keyboard_n2", encodes=["BufferedKeyboard as ExternalDevice", "DevWrapper<K, dyn KeyboardDevice>::{io_read,io_write,poll_interrupt}", "BufferedKeyboard::try_input", "RwLock::try_write"], bound="2 symbolic bytes queued, one access"),
        H("c33_getc_data", module="pstep", stubbing=True, kani_args=_K_ARGS, needs_os=True, heavy=True, timeout=1500,
          encodes=["Simulator::step_in (TRAP entry, LDI, BR, RTI on the built-in OS's TRAP_GETC)", "BufferedKeyboard", "RwLock"],
          bound="GETC with 2 bytes queued; keyboard lock possibly held during the KBDR read (symbolic), status poll uncontended"),
        H("c33_getc_poll", module="pstep", stubbing=True, kani_args=_K_ARGS, needs_os=True, heavy=True, timeout=1500,
          encodes=["as c33_getc_data"], bound="GETC; lock held during the first status poll, free afterwards"),
        H("c33_getc_poll_data", module="pstep", stubbing=True, kani_args=_K_ARGS, needs_os=True, heavy=True, timeout=2400,
          encodes=["as c33_getc_data"], bound="GETC; lock held during the first status poll and possibly during the data read"),
        H("c33_display_access", encodes=["BufferedDisplay as ExternalDevice", "DevWrapper<D, dyn DisplayDevice>::{io_read,io_write}", "BufferedDisplay::try_output"], bound="buffer <= 2 bytes, one access"),
    ],
)


def _kfam(prefix, quick, thorough, cover_tags=None, thorough_tags=None, **kw):
    """quick: all-in-one harnesses (must satisfy every cover of their assertion group);
    thorough: per-class harnesses - a class may be unable to reach some covers of the group
    (e.g. no frame pop in the load/store class), so only the generic step covers are required of them
    unless thorough_tags is given."""
    qt = [] if cover_tags == [] else ["step"] + (cover_tags or [])
    tt = (["step"] + thorough_tags) if thorough_tags is not None else ["step"]
    hs = [H(prefix + q, stubbing=True, kani_args=_K_ARGS, encodes=_K_ENC, heavy=True, timeout=1800, bound="one step_in, everything symbolic", cover_tags=qt, **kw) for q in quick]
    hs += [H(prefix + t, tier="thorough", stubbing=True, kani_args=_K_ARGS, encodes=_K_ENC, timeout=2400, bound="one step_in, class " + t, cover_tags=tt, **kw) for t in thorough]
    return hs

_K_ASSUME = _K_STUBS + ["frame depth < 2^64-1", "interrupt vectors >= x03", "CBMC pointer checks off (--no-memory-safety-checks): memory safety of std's unsafe code is trusted"]

PROPS["C09"] = dict(
    level="model_checking", jobs=3,
    claim="One step_in from an arbitrary USER-mode state with privilege checks on (virtual and real traps symbolic): a universally quantified witness address outside user space keeps its memory word and gets no observer entry, no device is reached from user mode, every attempted access outside x3000-xFDFF (fetch, LD/ST, LDI/STI pointer and target, LDR/STR) is reported as AccessViolation, RTI reports PrivilegeViolation without popping, and supervisor privilege is only gained through TRAP or (real traps) an exception vector, whose only non-user accesses are the two supervisor stack slots and one vector-table entry.",
    note="Inductive (arbitrary pre-state). The observational assertions are independent of the ISA model's step logic; the model only supplies the list of addresses the instruction semantics touches. Stubs S-dev/S-obs/S-mem as in C08.",
    design_ref="DESIGN.md section 3 (C09)",
    bounds="one step; unwind 10; strict off; no pending interrupt in the class harnesses, symbolic in c09_all",
    outside="the OS handler code that runs after TRAP/exception entry (supervisor mode by design)",
    assumptions=_K_ASSUME,
    # under real traps every fault is vectored to the OS, so "the step reports an error" is not
    # coverable in the real_* classes: no generic cover is required of them
    harnesses=_kfam("c09_", ["all"], ["virt_mem", "virt_alu", "virt_sys", "iofetch"], cover_tags=["c09"]) +
              [dict(h, cover_tags=[]) for h in _kfam("c09_", [], ["real_mem", "real_alu", "real_sys"])],
)
PROPS["C14"] = dict(
    level="model_checking", jobs=3, heavy_jobs=2,
    claim="One step_in with strict = true from an arbitrary state (incl. <= 2 alloca blocks): either it fails with a Strict* error, or result kind, registers, PC, PSR, saved SP, prefetch flag, instruction count, frame depth, every memory cell and the ordered device calls equal the NON-strict ISA model; and on a machine whose registers, saved SP and every touched memory cell are fully initialised no Strict* error is reported.",
    note="The non-strict model is tied to the non-strict implementation by C08. Stubs as in C08.",
    design_ref="DESIGN.md section 3 (C14)",
    bounds="one step; unwind 10; alloca list of exactly 2 sorted disjoint blocks with symbolic bounds",
    outside="observer contents under strict mode (the property lists registers, PC, PSR, memory, device effects, instruction counts)",
    assumptions=_K_ASSUME,
    harnesses=_kfam("c14_", ["same_all"], ["same_alu", "same_mem", "same_sys", "same_irq"], cover_tags=["c14"]) +
              _kfam("c14_", ["init_all"], ["init_alu", "init_mem", "init_sys", "init_irq"], cover_tags=["c14i"]),
)
PROPS["C16"] = dict(
    level="model_checking", jobs=3,
    claim="One step_in followed by prefetch_pc() from an arbitrary machine state with EVERY flag symbolic (strict, real traps, ignore_privilege), 2 alloca blocks, any pending interrupt: none of the panics rustc and Kani encode (arithmetic overflow, slice/array bounds, unwrap/expect on None/Err, unreachable!, explicit panic!) is reachable, and the result is Ok or a SimErr. One inductive step covers any number of steps.",
    note="Device internals are exercised with the same panic checks in C32-C34; here the hub is S-dev. Frame depth 2^64-1 (needs 2^64 executed calls) is assumed away.",
    design_ref="DESIGN.md section 3 (C16)",
    bounds="one step + prefetch_pc; unwind 10",
    outside="panics inside device implementations (C32-C34), debug_frames = true (C27 thorough)",
    assumptions=_K_ASSUME,
    harnesses=_kfam("c16_", ["any_all"], ["any_alu", "any_mem", "any_sys", "any_irq", "any_iofetch"]),
)
PROPS["C27"] = dict(
    level="model_checking", jobs=3, heavy_jobs=2,
    claim="(a) one step_in from an arbitrary state and arbitrary frame depth (incl. 0): FrameStack::len() is old+1 after JSR/JSRR/TRAP/interrupt entry/real-trap exception entry, saturating old-1 after JMP R7 and RTI, unchanged otherwise (also on every error path). (b, thorough tier: c27_frames_all needs 37 GB / 16 min) with debug_frames on, from an empty frame list: the list length equals the depth and the pushed Frame holds the calling / interrupted / faulting instruction's address, the subroutine start or vector, the call kind, and no arguments when no signature is registered.",
    note="Registered signatures (arguments, frame pointer) and the built-in trap table are NOT covered (HashMap<_, ParameterList> with Strings). Stubs as in C08.",
    design_ref="DESIGN.md section 3 (C27)",
    bounds="one step; unwind 10; debug_frames = false (quick)",
    outside="frame list contents with debug_frames (thorough), built-in trap signatures",
    assumptions=_K_ASSUME,
    harnesses=_kfam("c27_", ["depth_all"], ["depth_alu", "depth_sys", "depth_irq", "depth_mem"], cover_tags=["depth"]) +
              [dict(h, tier="thorough", timeout=3000) for h in _kfam("c27_", ["frames_all"], [], cover_tags=["depth", "frames"])],
)
PROPS["C28"] = dict(
    level="model_checking", jobs=3,
    claim="(a) one step_in from an arbitrary state: for a universally quantified non-I/O address the access set recorded through AccessObserver::update_mem_accesses equals the model's (READ for fetch, data reads, LDI/STI pointers, vector entries, RTI pops; WRITTEN for stores/pushes; MODIFIED iff the stored word differs; nothing else).",
    note="S-obs replaces the BTreeMap behind the observer by a log; the container itself and untracked contexts are separate harnesses (thorough).",
    design_ref="DESIGN.md section 3 (C28)",
    bounds="one step; unwind 10; non-strict",
    outside="I/O addresses (the property speaks of non-I/O addresses); run-level accumulation over many steps",
    assumptions=_K_ASSUME,
    harnesses=_kfam("c28_", ["obs_all"], ["obs_mem", "obs_sys", "obs_alu", "obs_irq"], cover_tags=["obs"]),
)

PROPS["C32"] = dict(
    level="model_checking", jobs=4,
    claim="(a) For 7 operation histories of fixed shape and fully symbolic arguments over add_device(2 symbolic ports), remove_device(symbolic id), set_keyboard, set_display, io_read, io_write on a fresh DeviceHandler, each followed by a probe at an arbitrary address: add_device succeeds exactly when all ports are I/O addresses owned by no device, ids strictly increase and are never reused, removal frees non-fixed ports and keeps keyboard/display ports reserved, and every read/write reaches exactly the device that owns the port (with the right arguments) or nothing.",
    note="Recording devices with distinct tags; port-ownership model in kani/src/c32.rs. Concrete history shapes (the heap shape of the device vector), symbolic ports/ids/addresses/data. Precedence of internal-register mappings (mmap_internal) over devices is NOT covered: the harness for it (c32::mm::c32_mmio_precedence, kept unregistered) inserts into a HashMap<u16, InternalRegister> with a symbolic key and did not leave symbolic execution in 25 min (hashbrown insert / rehash paths).",
    design_ref="DESIGN.md section 5 (C32)",
    bounds="histories: add+write, add+add, add+remove+add, set_keyboard+remove+add, set_display+write, set_keyboard+set_display+read (the 4-operation history add+add+remove+add did not finish: 1500 s, 36.8 GB); 2 ports per added device; unwind 514 (remove_device sweeps the 512-entry port table)",
    outside="other history shapes and longer histories; more than 2 ports per device; > 65535 devices; mmap_internal / munmap_internal precedence",
    assumptions=["Kani/CBMC/CaDiCaL"],
    harnesses=[H("c32_" + n, tier=t, stubbing=True, encodes=["DeviceHandler::{new,add_device,remove_device,set_keyboard,set_display,get_dev_id,set_port}", "<DeviceHandler as ExternalDevice>::{io_read,io_write}", "SimDevice dispatch"], bound="history " + n + " + probe", timeout=1500)
               for n, t in [("add_rw", "quick"), ("add_add", "quick"), ("add_remove_add", "quick"), ("kb_remove_add", "quick"), ("ds_write", "quick"), ("kb_ds_read", "quick")]],
)

PROPS["C07"] = dict(
    level="model_checking", jobs=1,
    claim="Statement level, all 65536 words: disassemble_line yields .fill <word> exactly for words below x0200 and non-canonical words; otherwise an instruction statement whose mnemonic is the alias (RET, GETC, OUT/PUTC, PUTS, IN, PUTSP, HALT) or base opcode the ISA table prescribes, and which pass 2 of the assembler (into_sim_instr at an ARBITRARY address + encode) turns back into the same word.",
    note="The round trip through TEXT (Display -> lexer -> parser) is NOT covered: the logos DFA and the parser cannot be executed on symbolic text within reach (DESIGN.md section 9). What is decided is the statement a user would see and that it re-encodes to the word.",
    design_ref="DESIGN.md section 4 (C07)",
    bounds="word: any u16; reassembly address: any u16; no loops",
    outside="printing the statement and re-parsing the printed text",
    assumptions=["S-hash, S-rand, S-upper (str::to_uppercase only reachable through the infeasible label arm)", "spec::instr as oracle"],
    harnesses=[H("c07_disassemble_all_words", stubbing=True, timeout=1200, encodes=["ast::asm::disassemble_line", "try_disassemble_line", "SimInstr::decode", "AsmInstr::into_sim_instr", "replace_pc_offset", "SimInstr::encode", "SymbolTable::new"], bound="w: any u16, pc: any u16")],
)
PROPS["C05"] = dict(
    level="model_checking", jobs=3,
    claim="Token -> operand half, full width: for every Unsigned(u16)/Signed(i16) token and every field (imm5, offset6, PCoffset9, PCoffset11 signed; trapvect8 and 16-bit .orig/.blkw operands unsigned; .fill either signedness) the operand is accepted exactly when the token's value fits the field and then carries that value; Reg(n) is accepted iff n <= 7; the imm5-or-register operand picks the right alternative.",
    note="The lexeme -> token half (decimal/#/x notations, leading zeros, R<digits>) runs the logos DFA and integer parsing on symbolic text, which does not terminate within the caps (DESIGN.md section 9): NOT claimed. .blkw's non-zero rule lives in Directive::parse and is covered in the thorough tier through the token-level parser hook.",
    design_ref="DESIGN.md section 5b (C05)",
    bounds="token payload: any u16 / i16 / u8; no loops",
    outside="text -> token (lexer validators)",
    assumptions=["S-fmt: alloc::fmt::format -> empty string (only error messages)"],
    harnesses=[
        H("c05_signed_fields", encodes=["<Offset<i16,N> as TokenParse>::{match_,convert} for N=5,6,9,11", "Offset::new"], bound="full width"),
        H("c05_unsigned_fields", encodes=["<Offset<u16,N> as TokenParse> for N=8,16", "IntLiteral::match_"], bound="full width"),
        H("c05_reg_and_either", stubbing=True, encodes=["<Reg as TokenParse>", "<Either<L,R> as TokenParse>"], bound="full width"),
    ],
)
PROPS["C25"] = dict(
    level="model_checking", jobs=4,
    claim="Position arithmetic: for a source of 6 bytes with 0..=3 newlines at arbitrary (strictly increasing) positions, count_lines is newlines + 1 and get_pos_pair(i) for every i <= len + 10 returns the line whose start is `col` bytes before i, with indices past the end placed on the last line.",
    note="Uses the hook SourceInfo::verif_from_parts to provide the newline index directly. Building the index from text (match_indices) and the whitespace trimming in line_span/read_line scan a str and blow up CBMC even for 4 bytes (DESIGN.md section 9): NOT claimed.",
    design_ref="DESIGN.md section 5 (C25)",
    bounds="source length 6 (concrete), <= 3 newlines at symbolic positions, index <= 16; unwind 6",
    outside="SourceInfo::new / from_string; line_span and read_line trimming; longer sources (the arithmetic is uniform in the length)",
    assumptions=["hook builds exactly the index from_string would build for some text with those newline positions"],
    harnesses=[H("c25_pos_nl%d" % n, encodes=["SourceInfo::{count_lines,get_pos_pair,get_line,raw_line_span}"], bound="%d newline(s)" % n) for n in range(4)],
)
PROPS["C10"] = dict(
    level="model_checking", jobs=2, heavy_jobs=2,
    claim="(a)+(c) gate, entry state and polling discipline: the irq class of the K-step family - a pending vectored interrupt is taken iff its (clamped) priority exceeds PSR's, enters supervisor mode at mem[x100+vect] with old PSR/PC pushed on the supervisor stack, CC=z, priority set, exactly one poll before any memory access, lower-priority requests fall through to the fetch, external interrupts surface as SimErr::Interrupt. (b) arbitration: DeviceHandler::poll_interrupt over three devices with symbolic requests delivers a request of maximal priority and polls each device exactly once. (d) transparency, as an inductive bracket over TWO real steps from an arbitrary state: interrupt entry followed by a handler whose instruction is RTI restores R0-R5, R7 (full words), the values of R6 and the saved SP, PC, the raw PSR and the frame depth, and changes memory only in the two supervisor stack slots - so a handler that preserves registers and the stack composes to the identity on the interrupted program at any boundary, nested or not.",
    note="(d) assumes the supervisor stack slots lie outside the I/O page and do not overlap the vector-table entry (OS-owned stack); the handler body itself is the hypothesis (its first instruction is RTI), not executed code. Timing 'only at an instruction boundary' follows from the single poll at the start of _step_inner (asserted through the device call log).",
    design_ref="DESIGN.md section 3 (C10)",
    bounds="one step (a,c); three devices, one poll (b); two steps (d); unwind 8/11",
    outside="handler bodies; nesting beyond one entry; keyboard/timer as interrupt sources (C33/C34 at device level)",
    assumptions=_K_ASSUME,
    harnesses=[
        H("c10_arbitration", stubbing=True, heavy=True, encodes=["<DeviceHandler as ExternalDevice>::poll_interrupt", "Interrupt::{vectored,external,priority}", "SimDevice::poll_interrupt"], bound="3 devices, any requests"),
        H("c10_bracket", module="c10::bracket", stubbing=True, kani_args=_K_ARGS, encodes=_K_ENC, heavy=True, timeout=3000, cover_tags=[],
          bound="two steps: interrupt entry from an arbitrary state, then RTI at the handler address; supervisor stack slots outside the I/O page and not overlapping the vector entry"),
        H("c10_irq_entry", module="c10::k", cover_tags=["step", "mem", "calls", "depth"], stubbing=True, kani_args=_K_ARGS, encodes=_K_ENC, heavy=True, timeout=1800, bound="one step with a pending interrupt, everything else symbolic"),
    ],
)

PROPS["C01"] = dict(
    level="model_checking", jobs=1,
    claim="Kernel layer: for every AsmInstr variant (all 27 label-free shapes: every opcode and the aliases RET, NOP, GETC, OUT, PUTC, PUTS, IN, PUTSP, HALT) with symbolic registers, numeric operands over their full field ranges and a symbolic location counter, pass 2's per-statement translation (into_sim_instr + encode) yields the machine instruction and the 16-bit word the LC-3 bit-field table prescribes.",
    note="NOT covered: statement placement, label -> address maps, label operands, .fill/.stringz/.blkw words, 'no other address is defined'. Those run pass 1 / pass 2 over a Vec<Stmt> with HashMap<String,_> and BTreeMap, whose symbolic execution does not finish within the caps even for 5 concrete statements (probes in DESIGN.md section 9). The claim is therefore 'each instruction statement's word', not the whole property.",
    design_ref="DESIGN.md section 5 (C01)",
    bounds="one instruction statement; operands at full field width; location counter any u16; unwind 7",
    outside="labels, directives, layout, multi-block programs, debug symbols",
    assumptions=["S-hash, S-rand, S-fmt, S-upper (label arm infeasible without label operands)", "spec::instr as oracle"],
    harnesses=[H("c01_instr_words", stubbing=True, timeout=1200, encodes=["AsmInstr::into_sim_instr", "replace_pc_offset (numeric arm)", "SimInstr::encode", "join_bits", "SymbolTable::new(&[])"], bound="27 instruction shapes, symbolic operands")],
)
PROPS["C26"] = dict(
    level="model_checking", jobs=1,
    claim="Span-list level: every way the assembler and linker construct the span list of an AsmErr - AsmErr::new with [] (how link reports overlapping blocks), one span, 2- and 3-element arrays, Vecs of 0..=3 spans (labels outside a block), Extend - yields a list for which first() and iter() do not panic, iter() yields exactly the given spans and first() is the first of them (symbolic span bounds).",
    note="The errors are built exactly as the call sites in asm.rs build them, but assemble()/link() themselves are not executed to the error (their HashMap<String,_>/BTreeMap code does not finish symbolic execution, DESIGN.md section 9). 'Every span lies within the source' and 'label errors cover a spelling of the label' are therefore NOT covered.",
    design_ref="DESIGN.md section 5 (C26)",
    bounds="span lists of 0..=3 spans with symbolic bounds; unwind 6",
    outside="which spans pass 1 / pass 2 / link put into an error",
    assumptions=["Kani/CBMC/CaDiCaL"],
    harnesses=[H("c26_span_list_constructors", stubbing=True, encodes=["err::ErrSpan::{first,iter,extend}", "From<Span>/<[Span;N]>/<&[Span]>/<Vec<Span>> for ErrSpan", "asm::AsmErr::new"], bound="0..=3 spans")],
)


PROPS["C11"] = dict(
    level="model_checking", jobs=3,
    claim="GETC only: TRAP x20 issued from user code with arbitrary register contents and two symbolic bytes queued, executed by the real simulator on the real OS routine (TRAP entry, LDI KBSR, BRzp, LDI KBDR, RTI - 5 instructions): R0 holds the first queued byte, exactly that byte is consumed, R1-R7, the whole PSR (condition codes, privilege, priority), the supervisor stack pointer, the frame depth and a user memory cell are as before.",
    note="OUT, PUTS, PUTSP, IN and HALT are NOT decided: after `LDR R0` the condition codes are a symbolic expression, CBMC no longer sees the privilege bit as constant and every later step costs as much as a fully symbolic one (9 steps: out of memory). The claim is deliberately narrow. Stubs: S-hub, S-poll0, S-obs, S-hash, S-swap, 20-cell associative memory preloaded from the OS image regenerated from /repo/src/os.asm on every run.",
    design_ref="DESIGN.md section 4 (C11)",
    bounds="one execution of GETC (5 instructions), input queue of 2 symbolic bytes, no lock contention, default flags (virtual traps, non-strict), caller PSR one of x8002 / x8004 / x8301 (condition code and priority are concrete per harness: a symbolic PSR would make every step as expensive as a fully symbolic one); unwind 4",
    outside="every other trap routine; empty queue (the routine spins); interrupts; strict mode; real traps",
    assumptions=["S-hub: default device wiring (decided by C32)", "S-poll0: no interrupt pending", "OS image words precomputed natively by the real parser + assembler"],
    harnesses=[H("c11_getc", module="pstep", stubbing=True, kani_args=_K_ARGS, needs_os=True, timeout=1500,
                 encodes=["Simulator::step_in x5 on TRAP_GETC", "handle_interrupt / call_interrupt (TRAP entry)", "RTI", "BufferedKeyboard::{io_read}", "read_mem MMIO mirror"],
                 bound="GETC, 2 queued bytes, no contention, caller PSR x8002 (cc z)")] +
              [H(n, module="pstep", stubbing=True, kani_args=_K_ARGS, needs_os=True, timeout=1500, encodes=["as c11_getc"], bound=b)
               for n, b in [("c11_getc_ccn", "caller PSR x8004 (cc n)"), ("c11_getc_ccp_prio", "caller PSR x8301 (cc p, priority 3)")]],
)

PROPS["C12"] = dict(
    level="model_checking", jobs=1,
    claim="Inductive core only: one step_in with use_real_traps = true from an arbitrary machine state (any privilege, any pending interrupt) equals the ISA model run with VIRTUAL traps - result, registers, PC, PSR, saved SP, memory, device calls, frame depth, instruction count - for every step that neither halts nor reports an error under virtual traps. Hence two runs of one program under the two settings agree instruction by instruction up to the first HALT or exception.",
    note="NOT decided: what happens after that point - 'stops through the OS' and 'prints the OS message for that exception and halts' are executions of 25-400 OS instructions (DESIGN.md section 6). The entry into the right OS handler (vector, pushed state) at a HALT / exception under real traps is decided by C08.",
    design_ref="DESIGN.md section 4 (C12)",
    bounds="one step; unwind 11; strict off",
    outside="the OS's HALT and exception handlers running to completion; display output of whole programs",
    assumptions=_K_ASSUME,
    # the harness assumes the virtual step succeeds, so "[step] step reports an error" is not coverable
    harnesses=[dict(h, cover_tags=["mem", "calls", "depth", "c12"]) for h in _kfam("c12_", ["same_step"], [])],
)


_RUN_LOOP = [(r"run_while.*sim\.rs", 3)]
_C13_ENC = _K_ENC + ["Simulator::run_with_limit", "Simulator::run_while", "Simulator::hit_halt", "Simulator::hit_breakpoint"]
PROPS["C13"] = dict(
    level="model_checking", jobs=2, heavy_jobs=1,
    claim="QUICK tier decides only step_out at frame depth 0 (the run_with_limit harnesses need 23-37 GB and 12-20 min each and are in the thorough tier, one at a time). One-iteration core of the run-style drivers, from an ARBITRARY machine state with no interrupt pending: run_with_limit(1), run_with_limit(1) with one PC breakpoint at any address, step_over and step_out (in executions whose documented stop condition holds after the first executed instruction) execute exactly the instruction a single step would (registers, PC, PSR, saved SP, memory, device calls, frame depth, instruction count equal the ISA model of ONE step), stop there, clear the MCR, and report hit_halt / hit_breakpoint exactly when a HALT was executed / the breakpoint matched after the executed instruction; step_out at frame depth 0 executes nothing and touches no device.",
    note="The run_while loop of the real code is bounded per loop (cbmc --unwindset, identifier read from the regenerated goto binary): 3 head visits, so an implementation that fails to stop after the first instruction executes a second one and is compared against the one-step model (or trips the unwinding assertion).",
    design_ref="DESIGN.md section 4 (C13)",
    bounds="one executed instruction per call (the stop condition holds after the first step: limit 1; frame depth back to / below the starting depth; HALT; error); no interrupt pending at the first boundary; instruction counter concrete (7); breakpoints: none or one PC breakpoint; strict off; run_while loop: 3 head visits, every other loop unwind 11",
    outside="runs of two or more instructions (equality with repeated single steps is by induction over this step only for the stop conditions checked after each step), interrupts arriving during a run, Breakpoint kinds other than PC, MCR cleared by the program through the mapped register, run() without limit",
    assumptions=_K_STUBS + ["frame depth < 2^64-5", "CBMC pointer checks off (--no-memory-safety-checks)"],
    harnesses=[
        H("c13_run_limit1_vt", tier="thorough", stubbing=True, kani_args=_K_ARGS, unwindset=_RUN_LOOP, heavy=True, timeout=1800, cover_tags=["step", "mem", "calls", "depth", "run"],
          encodes=_C13_ENC, bound="run_with_limit(1) from any state, virtual traps, no pending interrupt, no register mapping (one symbolic step: the loop condition folds to a constant after it; 11 min, 23 GB)"),
        H("c13_run_breakpoint_vt", tier="thorough", stubbing=True, kani_args=_K_ARGS, unwindset=_RUN_LOOP, heavy=True, timeout=1800, cover_tags=["step", "mem", "calls", "depth", "run", "bp"],
          encodes=_C13_ENC + ["Breakpoint::check", "HashSet<Breakpoint>::{insert,iter}"], bound="as c13_run_limit1_vt with one PC breakpoint at x3005 (the machine's PC is symbolic)"),
        H("c13_step_out_top", stubbing=True, kani_args=_K_ARGS, unwindset=_RUN_LOOP, timeout=1800, cover_tags=[],
          encodes=["Simulator::step_out"], bound="step_out at frame depth 0 from any other state"),
        H("c13_run_limit1", tier="thorough", stubbing=True, kani_args=_K_ARGS, unwindset=_RUN_LOOP, heavy=True, timeout=3000, cover_tags=["step", "mem", "calls", "depth", "run"],
          encodes=_C13_ENC, bound="run_with_limit(1), real/virtual traps symbolic: two symbolic steps are encoded because an OS entry for HALT / an exception does not count as an executed instruction (30 GB, 21 min)"),
    ],
)
