#!/bin/bash
# usage: seedrun.sh <tag> <prop> [tier]  -- applies the seeded change to /repo, runs the check, reverts.
tag=$1; prop=$2; tier=${3:-quick}
cd /verif
if [ -n "$(git -C /repo status --porcelain -- src Cargo.toml)" ]; then echo "/repo not clean"; exit 9; fi
git -C /repo apply /verif/seeded/$tag/patch.diff || exit 8
./check $prop --tier $tier --no-evidence > /verif/seeded/$tag/check_${prop}_$tier.log 2>&1
rc=$?
git -C /repo checkout -- .
echo "$tag $prop tier=$tier exit=$rc $(grep -c '^VIOLATION' /verif/seeded/$tag/check_${prop}_$tier.log) violation line(s)"
python3 - <<PY
import json
p="/verif/seeded/$tag/meta.json"; m=json.load(open(p))
m.setdefault("check_runs", {})["$prop:$tier"]=dict(cmd="git -C /repo apply seeded/$tag/patch.diff; ./check $prop --tier $tier; git -C /repo checkout -- .", exit=$rc,
   violation_lines=[l.strip() for l in open("/verif/seeded/$tag/check_${prop}_$tier.log") if l.startswith("VIOLATION") or l.startswith("  harness=")])
json.dump(m, open(p,"w"), indent=1)
PY
